#!/bin/bash
# runs every claimed check's quick command on the current tree; prints one line per check
cd /verif
for p in $(python3 -c "import json;print(' '.join(c['property_id'] for c in json.load(open('MANIFEST.json'))['checks']))"); do
  s=$(date +%s)
  timeout 1500 ./check $p --tier quick > /tmp/regress_$p.log 2>&1; rc=$?
  echo "$p rc=$rc $(( $(date +%s)-s ))s $(grep -c '^KNOWN-FINDING' /tmp/regress_$p.log) known $(grep 'tier=quick' /tmp/regress_$p.log | sed 's/.*obligations=/obl=/' | cut -c1-60)"
  [ $rc -ne 0 ] && grep "VIOLATION\|ERROR" /tmp/regress_$p.log | head -3 | cut -c1-200
done
