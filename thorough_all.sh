#!/bin/bash
# runs every claimed check's thorough command, one at a time (solver timeouts are wall-clock: do not run in parallel)
cd /verif
props="$@"; [ -z "$props" ] && props=$(python3 -c "import json;print(' '.join(c['property_id'] for c in json.load(open('MANIFEST.json'))['checks']))")
for p in $props; do
  s=$(date +%s)
  timeout 3600 ./check $p --tier thorough > /tmp/thorough_$p.log 2>&1; rc=$?
  echo "$p rc=$rc $(( $(date +%s)-s ))s $(grep 'tier=thorough' /tmp/thorough_$p.log | sed 's/.*obligations=/obl=/' | cut -c1-110)"
  [ $rc -ne 0 ] && grep "VIOLATION\|ERROR" /tmp/thorough_$p.log | head -3 | cut -c1-220
done
