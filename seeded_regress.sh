#!/bin/bash
# applies every kept seeded change to /repo in turn, runs the quick check of the property it breaks and expects
# exit 1 with a VIOLATION line; undoes the change. Usage: seeded_regress.sh [name ...]
cd /verif
names="$@"; [ -z "$names" ] && names=$(ls seeded)
for n in $names; do
  prop=$(python3 -c "import json;print(json.load(open('seeded/$n/meta.json'))['breaks_property'])")
  git -C /repo apply /verif/seeded/$n/patch.diff || { echo "$n: patch does not apply"; continue; }
  s=$(date +%s)
  timeout 1500 ./check $prop --tier quick --workers ${WORKERS:-16} > /tmp/sr_$n.log 2>&1; rc=$?
  git -C /repo checkout -- .
  v=$(grep -c '^VIOLATION' /tmp/sr_$n.log)
  echo "$n ($prop) rc=$rc violations=$v $(( $(date +%s)-s ))s $(grep '^VIOLATION' /tmp/sr_$n.log | head -2 | sed 's/.*replays\/[^\/]*\///' | tr '\n' ' ' | cut -c1-120)"
done
git -C /repo status --short | grep -v '^??' | head -3
