#!/bin/sh
# offline build of the engine
set -e
cd "$(dirname "$0")"
export GOFLAGS=-mod=mod GOPROXY=off GOSUMDB=off GOTOOLCHAIN=local
mkdir -p bin evidence replays
(cd engine && go build -o ../bin/gosym .)
echo "gosym built"
