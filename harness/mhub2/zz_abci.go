package mhub2

// Harnesses for the block-level functions of abci.go (same package, so the unexported functions are the real ones).

import (
	"math/big"
	"time"

	sdk "github.com/cosmos/cosmos-sdk/types"

	"github.com/MinterTeam/mhub2/module/x/mhub2/keeper"
	"github.com/MinterTeam/mhub2/module/x/mhub2/types"
	"github.com/MinterTeam/mhub2/module/x/zzverif/vrt"
)

var zzPow255 = new(big.Int).Lsh(big.NewInt(1), 255)

// ZZ_C12_Expiry: refundExpiredTxs acts on exactly the unbatched transfers whose timeout has passed and refunds
// each of them exactly (hub origin / other-chain origin / no origin), never a batched one.
func ZZ_C12_Expiry() {
	o := keeper.ZZStateOpts{MaxPool: 2, MaxBatches: 1, MaxPerBatch: 1, ConcreteIds: true, Chains: []types.ChainID{"ethereum"}}
	if vrt.Thorough() {
		o = keeper.ZZStateOpts{MaxPool: 2, MaxBatches: 1, MaxPerBatch: 1, ConcreteIds: true, DecChoice: true}
	}
	st := keeper.ZZBuildState(o)
	keeper.ZZOrigins(st)
	env := st.Env()
	k, ctx, chain := env.K, env.Ctx, st.Chain()
	pre := keeper.ZZRefundPreOf(st)
	// quick tier: four timeouts (sub-second, the test value, the default, one with a millisecond part); creation and
	// block times stay symbolic, so every position relative to the boundary is covered. Thorough: any timeout.
	timeoutMs := []uint64{1, 60001, 86400000 - 1, 2500}[vrt.Choose("timeout.choice", 4)]
	if vrt.Thorough() {
		timeoutMs = vrt.Uint64Below("timeout.ms", 1<<40)
	}
	p := keeper.ZZDefaultParams()
	p.OutgoingTxTimeout = timeoutMs
	k.ZZSetParams(ctx, p)
	// balances of the senders before
	bal0 := make([]map[string]*big.Int, len(st.Pool()))
	for i, e := range st.Pool() {
		addr, _ := sdk.AccAddressFromBech32(e.Sender)
		bal0[i] = map[string]*big.Int{"hub": env.Bank.Balance(addr, "hub").BigInt(), "usdt": env.Bank.Balance(addr, "usdt").BigInt()}
		for j := 0; j < i; j++ {
			vrt.Assume(st.Pool()[j].Sender != e.Sender || e.Sender == types.TempAddress.String())
		}
	}
	if vrt.Panics(func() { refundExpiredTxs(ctx, chain, k) }) {
		vrt.Reach("c12.expiry.panicked")
		return // block-level panics are C05's subject
	}
	vrt.Reach("c12.expiry")
	now := ctx.BlockTime()
	for i, e := range st.Pool() {
		expired := time.Unix(int64(e.CreatedAt), 0).Add(time.Duration(timeoutMs) * time.Millisecond).Before(now)
		inPool, inBatch := keeper.ZZCount(k, ctx, chain, e.Id)
		if !expired {
			vrt.Assert("c12.expiry.not-before-timeout", inPool == 1 && inBatch == 0)
			continue
		}
		if len(st.Pool()) == 1 {
			pre.Check("c12.expiry", e, bal0[i])
		} else {
			vrt.Assert("c12.expiry.removed[several expired at once]", inPool == 0 && inBatch == 0 || keeper.ZZHubValue(k, ctx, chain, e).Sign() == 0)
		}
	}
	for _, b := range st.Batches() {
		for _, t := range b.Transactions {
			inPool, inBatch := keeper.ZZCount(k, ctx, chain, t.Id)
			vrt.Assert("c12.expiry.batched-untouched", inPool == 0 && inBatch == 1)
		}
	}
}

// ZZ_C13_Cleanup: the real cleanupTimedOutBatchTxs / BeginBlocker dispatch.
func ZZ_C13_Cleanup() {
	o := keeper.ZZStateOpts{MaxPool: 0, MaxBatches: 2, MaxPerBatch: 1, ZeroFees: true, ConcreteIds: true}
	if vrt.Thorough() {
		o = keeper.ZZStateOpts{MaxPool: 1, MaxBatches: 3, MaxPerBatch: 1, ZeroFees: true, ConcreteIds: true}
	}
	st := keeper.ZZBuildState(o)
	env := st.Env()
	k, ctx, chain := env.K, env.Ctx, st.Chain()
	extHeight := vrt.Uint64Below("extHeight", 1<<56)
	k.SetLastObservedExternalBlockHeight(ctx, chain, extHeight)
	if chain != "minter" { // BeginBlocker's dispatch: `if chainId != "minter" { cleanupTimedOutBatchTxs(...) }`
		cleanupTimedOutBatchTxs(ctx, chain, k)
	}
	vrt.Reach("c13.cleanup")
	after := keeper.ZZBatchesOf(k, ctx, chain)
	for _, b := range st.Batches() {
		still := keeper.ZZHasBatch(after, b.ExternalTokenId, b.BatchNonce)
		if chain != "minter" && b.Timeout < extHeight {
			vrt.Assert("c13.cleanup.timed-out-withdrawn", !still)
			for _, t := range b.Transactions {
				p, bb := keeper.ZZCount(k, ctx, chain, t.Id)
				vrt.Assert("c13.cleanup.back-in-pool", p == 1 && bb == 0)
			}
		} else {
			vrt.Assert("c13.cleanup.live-batch-kept", still)
		}
	}
}

// ZZ_C09_PowerDiff: after createSignerSetTxs the latest published set differs from the current validator set by
// at most 5% of normalised power (exact rational arithmetic: 20 * sum|delta| <= 2^32-1).
func ZZ_C09_PowerDiff() {
	env := keeper.ZZNewEnv(int64(vrt.Uint64Below("height", 1<<40)), 1000)
	k, ctx := env.K, env.Ctx
	k.ZZSetParams(ctx, keeper.ZZDefaultParams())
	chain := types.ChainID("ethereum")
	n, pb := 2, uint64(8)
	if vrt.Thorough() {
		n, pb = 3, 12
	}
	vs := keeper.ZZValidators(env, chain, n, pb)
	// a previously published set: members among the validators' addresses with arbitrary normalised powers
	if vrt.Bool("haveLatest") {
		var signers types.ExternalSigners
		for i, v := range vs {
			if vrt.Bool("inLatest" + string(rune('0'+i))) {
				signers = append(signers, &types.ExternalSigner{Power: vrt.Uint64Below("latestPower"+string(rune('0'+i)), 1<<32), ExternalAddress: v.Ext.Hex()})
			}
		}
		nonce := 1 + vrt.Uint64Below("latestNonce", 1<<56)
		k.SetLatestSignerSetTxNonce(ctx, chain, nonce)
		k.SetOutgoingTx(ctx, chain, types.NewSignerSetTx(nonce, 1, signers))
	}
	if vrt.Panics(func() { createSignerSetTxs(ctx, chain, k) }) {
		vrt.Reach("c09.diff.panicked")
		return // C05
	}
	vrt.Reach("c09.diff")
	latest := k.GetLatestSignerSetTx(ctx, chain)
	vrt.Assert("c09.diff.published", latest != nil)
	if latest == nil {
		return
	}
	var cur types.ExternalSigners
	if vrt.Panics(func() { cur = k.CurrentSignerSet(ctx, chain) }) {
		return
	}
	sum := new(big.Int)
	seen := map[string]bool{}
	for _, c := range cur {
		d := new(big.Int).SetUint64(c.Power)
		for _, l := range latest.Signers {
			if l.ExternalAddress == c.ExternalAddress {
				d.Sub(d, new(big.Int).SetUint64(l.Power))
			}
		}
		seen[c.ExternalAddress] = true
		sum.Add(sum, d.Abs(d))
	}
	for _, l := range latest.Signers {
		if !seen[l.ExternalAddress] {
			sum.Add(sum, new(big.Int).SetUint64(l.Power))
		}
	}
	vrt.Assert("c09.diff.within-5-percent", new(big.Int).Mul(sum, big.NewInt(20)).Cmp(big.NewInt(4294967295)) <= 0)
}

// ZZ_C10_CreateBatchTxs: the real begin-block batch creation over a pool with up to two tokens: one batch per token
// with unbatched transfers, every transfer in the batch of its token, and batch nonces / outgoing sequence numbers
// handed out consecutively (distinct, counters advanced by the number of batches).
func ZZ_C10_CreateBatchTxs() {
	st := keeper.ZZBuildState(keeper.ZZStateOpts{MaxPool: 2, MaxBatches: 0, ConcreteIds: true, Chains: []types.ChainID{"ethereum"}})
	env := st.Env()
	k, chain := env.K, st.Chain()
	ctx := env.Ctx.WithBlockHeight(int64(vrt.Uint64Below("block.height", 1<<40)))
	seq0 := vrt.Uint64Below("seq0", 1<<56)
	k.ZZSetOutgoingSequence(ctx, chain, seq0)
	nonce0 := st.LastNonce()
	tokens := map[string]bool{}
	for _, p := range st.Pool() {
		tokens[p.Token.ExternalTokenId] = true
	}
	createBatchTxs(ctx, chain, k)
	vrt.Reach("c10.begin.returned")
	bs := keeper.ZZBatchesOf(k, ctx, chain)
	if ctx.BlockHeight()%2 != 0 {
		vrt.Assert("c10.begin.only-every-second-block", len(bs) == 0 && len(keeper.ZZPoolOf(k, ctx, chain)) == len(st.Pool()))
		return
	}
	vrt.Assert("c10.begin.one-batch-per-token", len(bs) == len(tokens))
	vrt.Assert("c10.begin.pool-drained", len(keeper.ZZPoolOf(k, ctx, chain)) == 0)
	n := uint64(len(bs))
	vrt.Assert("c10.begin.counters-advance-by-the-number-of-batches", k.ZZLastBatchNonce(ctx, chain) == nonce0+n && k.ZZOutgoingSequence(ctx, chain) == seq0+n)
	for i, b := range bs {
		vrt.Assert("c10.begin.nonce-in-range", b.BatchNonce > nonce0 && b.BatchNonce <= nonce0+n)
		vrt.Assert("c10.begin.sequence-in-range", b.Sequence > seq0 && b.Sequence <= seq0+n)
		for j := 0; j < i; j++ {
			vrt.Assert("c10.begin.nonces-distinct", bs[j].BatchNonce != b.BatchNonce)
			vrt.Assert("c10.begin.sequences-distinct", bs[j].Sequence != b.Sequence)
		}
		vrt.Assert("c10.begin.nonempty", len(b.Transactions) >= 1)
		for _, t := range b.Transactions {
			vrt.Assert("c10.begin.own-token", t.Token.ExternalTokenId == b.ExternalTokenId)
		}
	}
	for _, p := range st.Pool() {
		inPool, inBatch := keeper.ZZCount(k, ctx, chain, p.Id)
		vrt.Assert("c10.begin.every-transfer-batched-once", inPool == 0 && inBatch == 1)
	}
}
