package mhub2

// C06 — determinism: the same operation on two copies of the same state gives byte-identical state and events,
// whatever order Go's map iteration takes. Under the engine every `range` over a map yields its keys in an
// arbitrary order chosen independently for each execution (self-composition); natively the pair is re-run until
// the runtime happens to pick different orders.

import (
	"math/big"
	"time"

	sdk "github.com/cosmos/cosmos-sdk/types"

	"github.com/MinterTeam/mhub2/module/x/mhub2/keeper"
	"github.com/MinterTeam/mhub2/module/x/mhub2/types"
	"github.com/MinterTeam/mhub2/module/x/zzverif/vrt"
)

// zzTwice builds the state twice (same symbolic inputs), runs op on both and compares; natively it repeats.
func zzTwice(id string, build func() *keeper.ZZEnv, op func(env *keeper.ZZEnv)) {
	rounds := 1
	if !vrt.Symbolic() {
		rounds = 64
	}
	for r := 0; r < rounds; r++ {
		a, b := build(), build()
		pa := vrt.Panics(func() { op(a) })
		pb := vrt.Panics(func() { op(b) })
		vrt.Reach(id)
		if pa || pb {
			vrt.Assert(id+".same-outcome", pa == pb)
			continue
		}
		same := keeper.ZZSameState(a, b)
		vrt.Assert(id+".same-state-and-events", same)
		if !same {
			return
		}
	}
}

func ZZ_C06_Tally() {
	chain := types.ChainID("ethereum")
	N := 1 + vrt.Uint64Below("N", 1<<56)
	L := vrt.Uint64Below("lastObserved", 1<<56)
	amtA := vrt.IntRange("amountA", big.NewInt(1<<24), big.NewInt(1<<30))
	amtB := vrt.IntRange("amountB", big.NewInt(1<<24), big.NewInt(1<<30))
	vrt.Assume(amtA.Cmp(amtB) != 0)
	build := func() *keeper.ZZEnv {
		env := keeper.ZZNewEnv(10, 1000)
		k, ctx := env.K, env.Ctx
		k.ZZSetParams(ctx, keeper.ZZDefaultParams())
		vs := keeper.ZZValidatorsOpt(env, chain, 2, 1<<16, false)
		k.ExternalEventProcessor = &zzRecorder{}
		k.ZZSetLastObservedEventNonce(ctx, chain, L)
		evs := []*types.SendToHubEvent{zzDeposit(N, amtA), zzDeposit(N, amtB), zzDeposit(N+1, amtA)}
		for e := range evs {
			var votes []string
			for i, v := range vs {
				if vrt.Bool("vote" + string(rune('0'+e)) + string(rune('0'+i))) {
					votes = append(votes, v.Oper.String())
				}
			}
			if len(votes) > 0 {
				k.ZZSetVoteRecord(ctx, chain, evs[e], votes, false)
			}
		}
		return env
	}
	zzTwice("c06.tally", build, func(env *keeper.ZZEnv) { eventVoteRecordTally(env.Ctx, chain, env.K) })
}

func ZZ_C06_CreateBatches() {
	var st1 *keeper.ZZState
	build := func() *keeper.ZZEnv {
		st := keeper.ZZBuildState(keeper.ZZStateOpts{MaxPool: 2, MaxBatches: 0, ZeroFees: true, Chains: []types.ChainID{"minter", "ethereum"}})
		st1 = st
		return st.Env()
	}
	zzTwice("c06.createbatches", build, func(env *keeper.ZZEnv) {
		ctx := env.Ctx.WithBlockHeight(2 * int64(vrt.Uint64Below("halfheight", 1<<30)))
		createBatchTxs(ctx, st1.Chain(), env.K)
	})
}

func ZZ_C06_RecordVote() {
	chain := types.ChainID("ethereum")
	N := 2 + vrt.Uint64Below("N", 1<<56)
	L := vrt.Uint64Below("lastObserved", 1<<56)
	var oper sdk.ValAddress
	build := func() *keeper.ZZEnv {
		env := keeper.ZZNewEnv(10, 1000)
		k, ctx := env.K, env.Ctx
		k.ZZSetParams(ctx, keeper.ZZDefaultParams())
		vs := keeper.ZZValidatorsOpt(env, chain, 2, 1<<16, false)
		oper = vs[1].Oper
		k.ZZSetLastObservedEventNonce(ctx, chain, L)
		// records at two nonces, accepted or not: the first-time voter's starting nonce is derived from a map walk
		for i, n := range []uint64{N - 1, N} {
			acc := vrt.Bool("accepted" + string(rune('0'+i)))
			if acc {
				vrt.Assume(n <= L)
			}
			k.ZZSetVoteRecord(ctx, chain, zzDeposit(n, big.NewInt(1<<25)), []string{vs[0].Oper.String()}, acc)
		}
		return env
	}
	evNonce := vrt.Uint64Below("claimNonce", 1<<56)
	zzTwice("c06.recordvote", build, func(env *keeper.ZZEnv) {
		any, _ := types.PackEvent(zzDeposit(evNonce, big.NewInt(1<<26)))
		srv := keeper.NewMsgServerImpl(env.K)
		srv.SubmitExternalEvent(sdk.WrapSDKContext(env.Ctx), &types.MsgSubmitExternalEvent{Event: any, Signer: sdk.AccAddress(oper).String(), ChainId: "ethereum"})
	})
}

func ZZ_C06_SignerSets() {
	chain := types.ChainID("ethereum")
	build := func() *keeper.ZZEnv {
		env := keeper.ZZNewEnv(10, 1000)
		k, ctx := env.K, env.Ctx
		k.ZZSetParams(ctx, keeper.ZZDefaultParams())
		vs := keeper.ZZValidators(env, chain, 2, 8)
		var signers types.ExternalSigners
		for i, v := range vs {
			if vrt.Bool("inLatest" + string(rune('0'+i))) {
				signers = append(signers, &types.ExternalSigner{Power: vrt.Uint64Below("latestPower"+string(rune('0'+i)), 1<<32), ExternalAddress: v.Ext.Hex()})
			}
		}
		k.SetLatestSignerSetTxNonce(ctx, chain, 5)
		k.SetOutgoingTx(ctx, chain, types.NewSignerSetTx(5, 1, signers))
		return env
	}
	zzTwice("c06.signersets", build, func(env *keeper.ZZEnv) { createSignerSetTxs(env.Ctx, chain, env.K) })
}

// ZZ_C06_Expiry (C06): the end-block expiry of unbatched transfers run on two copies of the same state in the same
// block. Which transfers are refunded must be a function of the state and the block alone; in the symbolic run every
// read of the wall clock (time.Now, also inside time.Since / time.Until) returns an arbitrary instant that is
// independent per read, so code that consults the clock makes the two copies diverge.
// Native replay: the real clock cannot be set. The pool entries are therefore re-dated so that, by the wall clock,
// they are one second short of the (one hour) timeout, the first copy runs at once and the second 2.1 s later; the
// block time of both copies is the same. Code that looks only at the block treats both copies alike.
func ZZ_C06_Expiry() {
	native := !vrt.Symbolic()
	build := func() *keeper.ZZState {
		st := keeper.ZZBuildState(keeper.ZZStateOpts{MaxPool: 1, MaxBatches: 0, ConcreteIds: true, Chains: []types.ChainID{"ethereum"}})
		p := keeper.ZZDefaultParams()
		p.OutgoingTxTimeout = vrt.Uint64Below("timeout.ms", 1<<40)
		if native {
			p.OutgoingTxTimeout = 3600 * 1000
		}
		st.Env().K.ZZSetParams(st.Env().Ctx, p)
		return st
	}
	a, b := build(), build()
	if native {
		created := uint64(time.Now().Unix()) - 3600 + 1
		keeper.ZZRedatePool(a, created)
		keeper.ZZRedatePool(b, created)
	}
	pa := vrt.Panics(func() { refundExpiredTxs(a.Env().Ctx, a.Chain(), a.Env().K) })
	if native {
		time.Sleep(2100 * time.Millisecond)
	}
	pb := vrt.Panics(func() { refundExpiredTxs(b.Env().Ctx, b.Chain(), b.Env().K) })
	vrt.Reach("c06.expiry")
	if pa || pb {
		vrt.Assert("c06.expiry.same-outcome", pa == pb)
		return
	}
	vrt.Assert("c06.expiry.same-state-and-events", keeper.ZZSameState(a.Env(), b.Env()))
}
