package mhub2

// C05 — block processing never panics. Begin-block and end-block of the bridge module on arbitrary bounded states
// and with validator-reported events that passed the real stateless validation. A panic that escapes the harness
// entry is the violation (the engine reports it per panic site).

import (
	"fmt"
	"math/big"
	"os"

	sdk "github.com/cosmos/cosmos-sdk/types"
	"github.com/ethereum/go-ethereum/common"

	"github.com/MinterTeam/mhub2/module/x/mhub2/keeper"
	"github.com/MinterTeam/mhub2/module/x/mhub2/types"
	"github.com/MinterTeam/mhub2/module/x/zzverif/vrt"
)

var zzPow256 = new(big.Int).Lsh(big.NewInt(1), 256)

func zzAnyInt(name string) sdk.Int {
	// |v| < 2^256: the range of sdk.Int on the wire; nil is the zero value after decoding
	lim := new(big.Int).Sub(zzPow256, big.NewInt(1))
	return sdk.NewIntFromBigInt(vrt.IntRange(name, new(big.Int).Neg(lim), lim))
}

// ZZ_C05_EndBlockEvent: an event with quorum is applied by the real EndBlocker.
func ZZ_C05_EndBlockEvent() {
	o := keeper.ZZStateOpts{MaxPool: 0, MaxBatches: 1, MaxPerBatch: 1, ConcreteIds: true, Chains: []types.ChainID{"ethereum"}}
	if vrt.Thorough() {
		o = keeper.ZZStateOpts{MaxPool: 0, MaxBatches: 1, MaxPerBatch: 1, ConcreteIds: true, DecChoice: true} // decimals {6,18,24}; a pool entry, symbolic decimals or two transfers per batch: > 25 min
	}
	st := keeper.ZZBuildState(o)
	env := st.Env()
	k, ctx, chain := env.K, env.Ctx, st.Chain()
	idA, idB := st.Ids()
	if vrt.Bool("event.second-token") {
		idA = idB // the second token has 6 external decimals: amounts are scaled by 10^12 on the way in
	}
	// one bonded validator: its vote is a quorum
	oper := sdk.ValAddress(vrt.Bytes("oper", 20))
	env.Staking.Vals = append(env.Staking.Vals, keeper.ZZVal{Oper: oper, Power: 10, Bonded: true})
	k.ZZSetValidatorExternalAddress(ctx, "minter", oper, common.BytesToAddress([]byte{0xaa}))
	if vrt.Bool("prices") {
		env.Oracle.ZZSetPrice("eth", sdk.NewDec(2000))
		env.Oracle.ZZSetPrice("bnb", sdk.NewDec(300))
		env.Oracle.ZZSetPrice("hub", sdk.NewDecWithPrec(35, 1))
		env.Oracle.ZZSetPrice("usdt", sdk.NewDec(1))
	}
	L := vrt.Uint64Below("lastObserved", 1<<56)
	k.ZZSetLastObservedEventNonce(ctx, chain, L)
	var ev types.ExternalEvent
	rcv := common.BytesToAddress(vrt.Bytes("receiver", 20))
	switch vrt.Choose("kind", 3) {
	case 0:
		ev = &types.SendToHubEvent{EventNonce: L + 1, ExternalCoinId: idA, Amount: zzAnyInt("amount"),
			Sender: "0x00000000000000000000000000000000000000aa", CosmosReceiver: sdk.AccAddress(rcv.Bytes()).String(), ExternalHeight: vrt.Uint64("extHeight"), TxHash: "0xdead"}
	case 1:
		ev = &types.TransferToChainEvent{EventNonce: L + 1, ExternalCoinId: idA, Amount: zzAnyInt("amount"), Fee: zzAnyInt("fee"),
			Sender: "0x00000000000000000000000000000000000000aa", ReceiverChainId: []string{"hub", "minter", "bsc", "nochain"}[vrt.Choose("dest", 4)],
			ExternalReceiver: rcv.Hex(), ExternalHeight: vrt.Uint64("extHeight"), TxHash: "0xdead"}
	case 2:
		nonce := vrt.Uint64Below("batchNonce", 1<<56)
		ev = &types.BatchExecutedEvent{EventNonce: L + 1, ExternalCoinId: idA, BatchNonce: nonce, ExternalHeight: vrt.Uint64("extHeight"),
			TxHash: "0xdead", FeePaid: zzAnyInt("feePaid"), FeePayer: "Mxfeepayer"}
	}
	vrt.Assume(ev.Validate(chain) == nil)
	k.ZZSetVoteRecord(ctx, chain, ev, []string{oper.String()}, false)
	vrt.Reach("c05.endblock.event")
	if ttc, ok := ev.(*types.TransferToChainEvent); ok && ttc.Amount.BigInt().BitLen() <= 128 {
		// a relay deposit of an ordinary amount with ANY fee: the fee is an unchecked argument of the contract's
		// transferToChain, anybody can make the validators report an arbitrary one
		p := vrt.Panics(func() { EndBlocker(ctx, k) })
		vrt.Assert("c05.endblock.event.no-panic[transfer to chain: amount below 2^128, any fee]", !p)
		vrt.Reach("c05.endblock.event.done")
		return
	}
	EndBlocker(ctx, k)
	zzDebug(env, k, ctx, chain)
	vrt.Reach("c05.endblock.event.done")
}

// ZZ_C05_EndBlockExpiry: expiry refunds of arbitrary pool entries inside the real EndBlocker.
func ZZ_C05_EndBlockExpiry() {
	o := keeper.ZZStateOpts{MaxPool: 1, MaxBatches: 0, ConcreteIds: true, Chains: []types.ChainID{"ethereum"}}
	if vrt.Thorough() {
		o = keeper.ZZStateOpts{MaxPool: 2, MaxBatches: 0, DecChoice: true}
	}
	st := keeper.ZZBuildState(o)
	keeper.ZZOrigins(st)
	env := st.Env()
	p := keeper.ZZDefaultParams()
	p.OutgoingTxTimeout = vrt.Uint64Below("timeout.ms", 1<<40)
	env.K.ZZSetParams(env.Ctx, p)
	vrt.Reach("c05.endblock.expiry")
	EndBlocker(env.Ctx, env.K)
	vrt.Reach("c05.endblock.expiry.done")
}

// ZZ_C05_BeginBlock: the real BeginBlocker on pool, batches and symbolic validators.
func ZZ_C05_BeginBlock() {
	o := keeper.ZZStateOpts{MaxPool: 1, MaxBatches: 1, MaxPerBatch: 1, ConcreteIds: true, Chains: []types.ChainID{"ethereum"}}
	if vrt.Thorough() {
		o = keeper.ZZStateOpts{MaxPool: 1, MaxBatches: 1, MaxPerBatch: 1} // both chains; two batches with two validators: > 40 min
	}
	st := keeper.ZZBuildState(o)
	env := st.Env()
	k, ctx := env.K, env.Ctx
	p := keeper.ZZDefaultParams()
	p.Chains = []string{st.Chain().String(), "hub"}
	p.AverageBlockTime = vrt.Uint64Below("avgBlockTime", 1<<40)
	p.AverageEthereumBlockTime = vrt.Uint64Below("avgEthBlockTime", 1<<40)
	p.TargetEthTxTimeout = vrt.Uint64Below("targetTimeout", 1<<40)
	p.SignedSignerSetTxsWindow = vrt.Uint64Below("window", 1<<40)
	vrt.Assume(p.ValidateBasic() == nil) // parameters pass the module's own validation (genesis / governance)
	k.ZZSetParams(ctx, p)
	nv := 1
	if vrt.Thorough() {
		nv = 2
	}
	vs := keeper.ZZValidators(env, st.Chain(), nv, 8)
	// signer-set state: the nonce counter may be ahead of what is stored (the latest set is pruned once a set with a
	// higher nonce has been observed, and upgrade handlers move the counter), or a latest set is stored
	if vrt.Bool("ss.counter") {
		nonce := 1 + vrt.Uint64Below("ss.latestNonce", 1<<56)
		k.SetLatestSignerSetTxNonce(ctx, st.Chain(), nonce)
		if vrt.Bool("ss.stored") {
			var signers types.ExternalSigners
			for i, v := range vs {
				signers = append(signers, &types.ExternalSigner{Power: vrt.Uint64Below("ss.power"+string(rune('0'+i)), 1<<32), ExternalAddress: v.Ext.Hex()})
			}
			k.SetOutgoingTx(ctx, st.Chain(), types.NewSignerSetTx(nonce, vrt.Uint64Below("ss.height", 1<<40), signers))
		}
	}
	if vrt.Bool("observed") {
		k.SetLastObservedExternalBlockHeight(ctx, st.Chain(), vrt.Uint64Below("extHeight", 1<<56))
	}
	vrt.Reach("c05.beginblock")
	BeginBlocker(ctx, k)
	vrt.Reach("c05.beginblock.done")
}

func zzDebug(env *keeper.ZZEnv, k keeper.Keeper, ctx sdk.Context, chain types.ChainID) {
	if vrt.Symbolic() || os.Getenv("ZZ_DEBUG") == "" {
		return
	}
	fmt.Println("DEBUG lastObserved", k.GetLastObservedEventNonce(ctx, chain), "batches", len(keeper.ZZBatchesOf(k, ctx, chain)),
		"minterpool", len(keeper.ZZPoolOf(k, ctx, "minter")), "supply", env.Bank.SupplyOf("hub"), "signers", k.CurrentSignerSet(ctx, "minter"))
	for _, p := range keeper.ZZPoolOf(k, ctx, "minter") {
		fmt.Println("DEBUG  ", p.TxHash, p.Token.Amount, p.ExternalRecipient)
	}
}
