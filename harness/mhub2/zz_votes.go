package mhub2

// C02 / C03 — attestation quorum, exactly-once application in nonce order.

import (
	"math/big"

	sdk "github.com/cosmos/cosmos-sdk/types"

	"github.com/MinterTeam/mhub2/module/x/mhub2/keeper"
	"github.com/MinterTeam/mhub2/module/x/mhub2/types"
	"github.com/MinterTeam/mhub2/module/x/zzverif/vrt"
)

const zzTok = "0x8C2B6949590bEBE6BC1124B670e58DA85b081b2E"

func zzDeposit(nonce uint64, amount *big.Int) *types.SendToHubEvent {
	return &types.SendToHubEvent{EventNonce: nonce, ExternalCoinId: zzTok, Amount: sdk.NewIntFromBigInt(amount),
		Sender: "0x00000000000000000000000000000000000000aa", CosmosReceiver: sdk.AccAddress(make([]byte, 20)).String(),
		ExternalHeight: 7, TxHash: "0xfeed"}
}

// zzRecorder stands in for the event processor: it records what is applied.
type zzRecorder struct {
	applied []types.ExternalEvent
}

func (r *zzRecorder) Handle(ctx sdk.Context, chain types.ChainID, ev types.ExternalEvent) error {
	r.applied = append(r.applied, ev)
	return nil
}

func zzPowerBound() uint64 {
	if vrt.Thorough() {
		return 1 << 40
	}
	return 1 << 16
}

func zzNumVals() int {
	// three validators in both tiers (four exceed the path budget in the thorough tier, where any of them may be
	// unbonded, vote for the next nonce and any record may already be accepted)
	return 3
}

// ZZ_C02_Vote: one MsgSubmitExternalEvent against a state that already holds a vote record.
func ZZ_C02_Vote() {
	env := keeper.ZZNewEnv(10, 1000)
	k, ctx := env.K, env.Ctx
	k.ZZSetParams(ctx, keeper.ZZDefaultParams())
	chain := types.ChainID("ethereum")
	nv := 2
	if vrt.Thorough() {
		nv = 3
	}
	vs := keeper.ZZValidatorsOpt(env, chain, nv, zzPowerBound(), false)
	L := vrt.Uint64Below("lastObserved", 1<<56)
	k.ZZSetLastObservedEventNonce(ctx, chain, L)
	// an orchestrator registered by validator 0
	orch := sdk.AccAddress(vrt.Bytes("orch0", 20))
	stranger := sdk.AccAddress(vrt.Bytes("stranger", 20))
	for _, v := range vs {
		vrt.Assume(!orch.Equals(sdk.AccAddress(v.Oper)) && !stranger.Equals(sdk.AccAddress(v.Oper)))
	}
	vrt.Assume(!orch.Equals(stranger))
	k.SetOrchestratorValidatorAddress(ctx, chain, vs[0].Oper, orch)
	// existing record for event A at nonce N with votes of a subset of the validators
	N := 1 + vrt.Uint64Below("N", 1<<56)
	amtA := vrt.IntRange("amountA", big.NewInt(1<<24), big.NewInt(1<<30))
	amtB := vrt.IntRange("amountB", big.NewInt(1<<24), big.NewInt(1<<30))
	if vrt.Bool("amountB.above-2^64") { // a second fixed-length window: amounts that agree with A in their low 64 bits
		amtB = new(big.Int).Add(amtB, new(big.Int).Lsh(big.NewInt(1), 64))
	}
	vrt.Assume(amtA.Cmp(amtB) != 0)
	evA, evB, evC := zzDeposit(N, amtA), zzDeposit(N, amtB), zzDeposit(N+1, amtA)
	var votes []string
	voted := make([]bool, len(vs))
	for i, v := range vs {
		if vrt.Bool("votedA" + string(rune('0'+i))) {
			votes = append(votes, v.Oper.String())
			voted[i] = true
			k.ZZSetLastEventNonceByValidator(ctx, chain, v.Oper, N)
		} else if vrt.Bool("hasNonce" + string(rune('0'+i))) {
			k.ZZSetLastEventNonceByValidator(ctx, chain, v.Oper, vrt.Uint64Below("valNonce"+string(rune('0'+i)), 1<<56))
		}
	}
	if len(votes) > 0 {
		// the record may already have been observed (a late vote of a validator that is behind); an observed record
		// at nonce N implies that the chain's last observed nonce has reached N
		accepted := vrt.Bool("recordA.accepted")
		if accepted {
			vrt.Assume(L >= N)
		}
		k.ZZSetVoteRecord(ctx, chain, evA, votes, accepted)
	}
	// the message
	signers := []sdk.AccAddress{orch, stranger}
	for _, v := range vs {
		signers = append(signers, sdk.AccAddress(v.Oper))
	}
	si := vrt.Choose("signer", len(signers))
	ev := []types.ExternalEvent{evA, evB, evC}[vrt.Choose("event", 3)]
	any, _ := types.PackEvent(ev)
	msg := &types.MsgSubmitExternalEvent{Event: any, Signer: signers[si].String(), ChainId: []string{"ethereum", "nochain"}[vrt.Choose("msg.chain", 2)]}
	vrt.Assume(msg.ValidateBasic() == nil)
	// which validator does the signer stand for?
	who := -1
	switch {
	case si == 0:
		who = 0
	case si >= 2:
		who = si - 2
	}
	var before uint64
	hadStored := false
	if who >= 0 {
		hadStored = k.ZZHasStoredEventNonce(ctx, chain, vs[who].Oper)
		before = k.ZZGetLastEventNonceByValidator(ctx, chain, vs[who].Oper)
	}
	srv := keeper.NewMsgServerImpl(k)
	var err error
	if vrt.Panics(func() { _, err = srv.SubmitExternalEvent(sdk.WrapSDKContext(ctx), msg) }) {
		return
	}
	vrt.Reach("c02.vote.returned")
	if err != nil {
		return
	}
	vrt.Reach("c02.vote.accepted")
	vrt.Assert("c02.vote.known-signer", who >= 0)
	if who < 0 {
		return
	}
	vrt.Assert("c02.vote.bonded", vs[who].Bonded)
	rec := k.GetExternalEventVoteRecord(ctx, chain, ev.GetEventNonce(), ev.Hash())
	vrt.Assert("c02.vote.recorded", rec != nil)
	if rec == nil {
		return
	}
	// the record found under the claim's (nonce, hash) holds the claimed event, not a different one at the same nonce
	if held, uerr := types.UnpackEvent(rec.Event); uerr == nil {
		dep, isDep := held.(*types.SendToHubEvent)
		vrt.Check("c02.vote.record-holds-the-claimed-event", isDep && dep.EventNonce == ev.GetEventNonce() && dep.Amount.Equal(ev.(*types.SendToHubEvent).Amount))
	}
	me := vs[who].Oper.String()
	cnt := 0
	for _, v := range rec.Votes {
		if v == me {
			cnt++
		}
	}
	vrt.Check("c02.vote.attributed-once", cnt == 1) // Check: the C03 obligations below are independent of it
	for i := range rec.Votes {
		for j := i + 1; j < len(rec.Votes); j++ {
			vrt.Assert("c02.vote.no-duplicate-voters", rec.Votes[i] != rec.Votes[j])
		}
	}
	// C03: consecutive claims per validator, no second vote for a nonce
	after := k.ZZGetLastEventNonceByValidator(ctx, chain, vs[who].Oper)
	vrt.Check("c03.validator-nonce-stored", after == ev.GetEventNonce())
	if hadStored && before != 0 {
		vrt.Check("c03.validator-consecutive", ev.GetEventNonce() == before+1)
	}
	vrt.Check("c03.no-second-vote-for-a-nonce", !(who >= 0 && voted[who] && ev.GetEventNonce() == N))
	// the same validator cannot add its power a second time by repeating the claim
	var err2 error
	p2 := vrt.Panics(func() { _, err2 = srv.SubmitExternalEvent(sdk.WrapSDKContext(ctx), msg) })
	rec2 := k.GetExternalEventVoteRecord(ctx, chain, ev.GetEventNonce(), ev.Hash())
	cnt2 := 0
	if rec2 != nil {
		for _, v := range rec2.Votes {
			if v == me {
				cnt2++
			}
		}
	}
	vrt.Check("c02.vote.repeated-claim-not-counted-twice", (p2 || err2 != nil) && cnt2 == 1)
}

// ZZ_C02_Tally: the real eventVoteRecordTally on records with arbitrary vote sets; powers are those at tally time.
func ZZ_C02_Tally() {
	env := keeper.ZZNewEnv(10, 1000)
	k, ctx := env.K, env.Ctx
	k.ZZSetParams(ctx, keeper.ZZDefaultParams())
	chain := types.ChainID("ethereum")
	vs := keeper.ZZValidatorsOpt(env, chain, zzNumVals(), zzPowerBound(), false)
	rec := &zzRecorder{}
	k.ExternalEventProcessor = rec
	// the orchestrator registry at tally time: the first validator has none, an ordinary account, or the operator
	// account of the second validator (SetDelegateKeys allows it); votes are stored under validator addresses
	switch vrt.Choose("orch.of.val0", 3) {
	case 1:
		k.SetOrchestratorValidatorAddress(ctx, chain, vs[0].Oper, sdk.AccAddress(append(make([]byte, 19), 0xee)))
	case 2:
		k.SetOrchestratorValidatorAddress(ctx, chain, vs[0].Oper, sdk.AccAddress(vs[1].Oper))
	}
	N := 1 + vrt.Uint64Below("N", 1<<56)
	L := vrt.Uint64Below("lastObserved", 1<<56)
	k.ZZSetLastObservedEventNonce(ctx, chain, L)
	amtA := vrt.IntRange("amountA", big.NewInt(1<<24), big.NewInt(1<<30))
	amtB := vrt.IntRange("amountB", big.NewInt(1<<24), big.NewInt(1<<30))
	vrt.Assume(amtA.Cmp(amtB) != 0)
	evs := []*types.SendToHubEvent{zzDeposit(N, amtA), zzDeposit(N, amtB), zzDeposit(N+1, amtA)}
	votes := make([][]string, len(evs))
	for i, v := range vs {
		// a validator votes for at most one claim per nonce (C03)
		nc := 3
		_ = i
		switch vrt.Choose("voteN"+string(rune('0'+i)), nc) {
		case 1:
			votes[0] = append(votes[0], v.Oper.String())
		case 2:
			votes[1] = append(votes[1], v.Oper.String())
		}
		if (i < 2 || vrt.Thorough()) && vrt.Bool("voteN1"+string(rune('0'+i))) {
			votes[2] = append(votes[2], v.Oper.String())
		}
		if i < 2 && !vrt.Thorough() {
			vrt.Assume(v.Bonded) // quick tier: only the last validator may be unbonded at tally time
		}
	}
	accepted := make([]bool, len(evs))
	for e := range evs {
		if len(votes[e]) == 0 {
			continue
		}
		accepted[e] = (e == 0 || vrt.Thorough()) && vrt.Bool("accepted"+string(rune('0'+e)))
		if accepted[e] {
			vrt.Assume(evs[e].EventNonce <= L) // invariant: an accepted record has been applied already
		}
		k.ZZSetVoteRecord(ctx, chain, evs[e], votes[e], accepted[e])
	}
	vrt.Assume(!(accepted[0] && accepted[1])) // invariant: at most one accepted claim per nonce

	if vrt.Panics(func() { eventVoteRecordTally(ctx, chain, k) }) {
		vrt.Reach("c03.tally.panicked")
		vrt.Assert("c03.tally.no-panic", false)
		return
	}
	vrt.Reach("c02.tally")
	total := new(big.Int)
	for _, v := range vs {
		if v.Bonded {
			total.Add(total, big.NewInt(v.Power))
		}
	}
	for i, ap := range rec.applied {
		// strictly consecutive from the last observed nonce
		vrt.Assert("c03.applied-in-order", ap.GetEventNonce() == L+1+uint64(i))
		for e := range evs {
			if ap.(*types.SendToHubEvent).Amount.Equal(evs[e].Amount) && ap.GetEventNonce() == evs[e].EventNonce {
				vrt.Assert("c03.accepted-not-reapplied", !accepted[e])
				power := new(big.Int)
				for _, v := range vs {
					for _, vote := range votes[e] {
						if vote == v.Oper.String() && v.Bonded {
							power.Add(power, big.NewInt(v.Power))
						}
					}
				}
				floorThr := zzQuo(new(big.Int).Mul(big.NewInt(66), total), big.NewInt(100))
				vrt.Assert("c02.quorum.floor", power.Cmp(floorThr) >= 0)
				vrt.Assert("c02.quorum.some-vote", len(votes[e]) > 0)
				vrt.Assert("c02.quorum.exact-66-percent[threshold truncated to floor(66*total/100)]", new(big.Int).Mul(power, big.NewInt(100)).Cmp(new(big.Int).Mul(big.NewInt(66), total)) >= 0)
			}
		}
	}
	for i := range rec.applied {
		for j := i + 1; j < len(rec.applied); j++ {
			vrt.Assert("c03.one-claim-per-nonce", rec.applied[i].GetEventNonce() != rec.applied[j].GetEventNonce())
		}
	}
	vrt.Assert("c03.last-observed-advanced", k.GetLastObservedEventNonce(ctx, chain) == L+uint64(len(rec.applied)))
}

func zzQuo(a, b *big.Int) *big.Int { return new(big.Int).Quo(a, b) }

// ZZ_C03_FailedEventHasNoEffect: an event that reaches quorum is consumed exactly once (observed, nonce advanced)
// whether its application succeeds or fails, and a failed application leaves no partial effect. The real tally,
// TryEventVoteRecord, processExternalEvent and the real handler on a relay deposit (TransferToChainEvent to
// another chain) whose second leg can fail (fee above the amount less commission) after the first leg has minted.
func ZZ_C03_FailedEventHasNoEffect() {
	st := keeper.ZZBuildState(keeper.ZZStateOpts{MaxPool: 0, MaxBatches: 0, ConcreteIds: true, Chains: []types.ChainID{"ethereum"}})
	env := st.Env()
	k, ctx, chain := env.K, env.Ctx, st.Chain()
	idA, _ := st.Ids()
	oper := sdk.ValAddress(append(make([]byte, 19), 9))
	env.Staking.Vals = append(env.Staking.Vals, keeper.ZZVal{Oper: oper, Power: 10, Bonded: true})
	L := vrt.Uint64Below("lastObserved", 1<<56)
	k.ZZSetLastObservedEventNonce(ctx, chain, L)
	amount := vrt.IntRange("amount", big.NewInt(0), new(big.Int).Lsh(big.NewInt(1), 128))
	fee := vrt.IntRange("fee", big.NewInt(0), new(big.Int).Lsh(big.NewInt(1), 128))
	sup0 := vrt.IntRange("supply", big.NewInt(0), new(big.Int).Lsh(big.NewInt(1), 200))
	env.Bank.SetSupply("hub", sdk.NewIntFromBigInt(sup0))
	ev := &types.TransferToChainEvent{EventNonce: L + 1, ExternalCoinId: idA, Amount: sdk.NewIntFromBigInt(amount), Fee: sdk.NewIntFromBigInt(fee),
		Sender: "0x00000000000000000000000000000000000000aa", ReceiverChainId: "minter",
		ExternalReceiver: "0x00000000000000000000000000000000000000bb", ExternalHeight: 5, TxHash: "0xdead"}
	vrt.Assume(ev.Validate(chain) == nil)
	k.ZZSetVoteRecord(ctx, chain, ev, []string{oper.String()}, false)
	if vrt.Panics(func() { eventVoteRecordTally(ctx, chain, k) }) {
		return // C05
	}
	vrt.Reach("c03.failed.tallied")
	vrt.Assert("c03.failed.consumed-once", k.GetLastObservedEventNonce(ctx, chain) == L+1)
	queued := len(keeper.ZZPoolOf(k, ctx, "minter"))
	supplySame := env.Bank.SupplyOf("hub").BigInt().Cmp(sup0) == 0
	clean := env.Bank.Balance(types.TempAddress, "hub").IsZero() && env.Bank.Balance(keeper.ZZModuleAddr(), "hub").IsZero()
	if queued == 0 {
		vrt.Reach("c03.failed.application-failed")
		vrt.Assert("c03.failed.no-partial-effect", supplySame && clean)
	} else {
		vrt.Reach("c03.failed.application-succeeded")
		vrt.Assert("c03.failed.success-is-complete", queued == 1 && supplySame && clean)
	}
}
