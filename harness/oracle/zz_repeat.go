package keeper

// C18 — a validator that re-sends its claim within an epoch is still one voter. Three claims (all for the current
// epoch, one kind, one list variant) by two of three validators in every order, then the epoch boundary: prices /
// holders are applied only if the DISTINCT claimers reach the quorum. The quick tier of ZZ_C18_Epoch has two claims,
// which cannot show a duplicate that needs an out-of-order vote list (hi, lo, hi); this entry keeps everything else
// concrete so that three claims stay cheap.

import (
	"math/big"

	sdk "github.com/cosmos/cosmos-sdk/types"

	"github.com/MinterTeam/mhub2/module/x/oracle/types"
	"github.com/MinterTeam/mhub2/module/x/zzverif/vrt"
)

func ZZ_C18_RepeatedClaims() {
	env := zzNewEnv(5)
	k, ctx := env.k, env.ctx
	E := 1 + vrt.Uint64Below("epoch", 1<<56)
	k.setCurrentEpoch(ctx, E)
	nv := 3
	total := int64(0)
	for i := 0; i < nv; i++ {
		s := string(rune('0' + i))
		// concrete addresses: the order of two valoper strings is then the real bech32 text order (for symbolic
		// addresses the engine abstracts it to an arbitrary order, which a native replay need not share); both
		// lexicographic arrangements of the two claimers are covered because the claimers are chosen symbolically
		oper := sdk.ValAddress(append(make([]byte, 19), byte(0x11*(i+1))))
		p := int64(1 + vrt.Uint64Below("power"+s, 12))
		total += p
		env.staking.Vals = append(env.staking.Vals, zzVal{Oper: oper, Power: p, Bonded: true})
	}
	srv := msgServer{Keeper: k}
	kind := vrt.Choose("kind", 2)
	claimed := make([]bool, nv)
	for c := 0; c < 3; c++ {
		s := string(rune('0' + c))
		vi := vrt.Choose("claimer"+s, 2) // the third validator stays silent
		orch := sdk.AccAddress(env.staking.Vals[vi].Oper).String()
		var err error
		if kind == 0 {
			_, err = srv.PriceClaim(sdk.WrapSDKContext(ctx), &types.MsgPriceClaim{Epoch: E, Prices: zzPriceList(big.NewInt(1)), Orchestrator: orch})
		} else {
			_, err = srv.HoldersClaim(sdk.WrapSDKContext(ctx), &types.MsgHoldersClaim{Epoch: E, Holders: zzHolders(0), Orchestrator: orch})
		}
		vrt.Assert("c18.repeat.no-error", err == nil)
		claimed[vi] = true
	}
	vrt.Reach("c18.repeat.claims-done")
	k.ProcessCurrentEpoch(ctx)
	distinct := int64(0)
	for i, c := range claimed {
		if c {
			distinct += env.staking.Vals[i].Power
		}
	}
	if env.h.priceCalls+env.h.holderCalls > 0 {
		vrt.Reach("c18.repeat.applied")
		vrt.Assert("c18.repeat.quorum-of-distinct-validators", distinct >= 66*total/100)
		votes := env.h.priceVotes
		if kind == 1 {
			votes = env.h.holderVotes
		}
		for i := range votes {
			for j := i + 1; j < len(votes); j++ {
				vrt.Assert("c18.repeat.each-voter-listed-once", votes[i] != votes[j])
			}
		}
	}
}
