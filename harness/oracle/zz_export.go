package keeper

// exported wrappers for harnesses in package oracle (module/x/oracle)

import (
	"math/big"

	sdk "github.com/cosmos/cosmos-sdk/types"

	"github.com/MinterTeam/mhub2/module/x/oracle/types"
)

type ZZOracleEnv struct{ e *zzEnv }

func ZZNewOracleEnv(height int64) *ZZOracleEnv { return &ZZOracleEnv{zzNewEnv(height)} }
func (o *ZZOracleEnv) K() Keeper               { return o.e.k }
func (o *ZZOracleEnv) Ctx() sdk.Context        { return o.e.ctx }
func (o *ZZOracleEnv) SetEpoch(e uint64)       { o.e.k.setCurrentEpoch(o.e.ctx, e) }
func (o *ZZOracleEnv) Epoch() uint64           { return o.e.k.GetCurrentEpoch(o.e.ctx) }
func (o *ZZOracleEnv) Applied() int            { return o.e.h.priceCalls + o.e.h.holderCalls }
func (o *ZZOracleEnv) AddValidator(oper sdk.ValAddress, power int64, bonded bool) {
	o.e.staking.Vals = append(o.e.staking.Vals, zzVal{Oper: oper, Power: power, Bonded: bonded})
}

// Claim submits a price (kind 0) or holders (kind 1) claim of validator vi through the real message server.
func (o *ZZOracleEnv) Claim(kind, vi int, epoch uint64, variant int) error {
	srv := msgServer{Keeper: o.e.k}
	orch := sdk.AccAddress(o.e.staking.Vals[vi].Oper).String()
	if kind == 0 {
		_, err := srv.PriceClaim(sdk.WrapSDKContext(o.e.ctx), &types.MsgPriceClaim{Epoch: epoch, Prices: zzPriceList(big.NewInt(int64(1 + variant))), Orchestrator: orch})
		return err
	}
	_, err := srv.HoldersClaim(sdk.WrapSDKContext(o.e.ctx), &types.MsgHoldersClaim{Epoch: epoch, Holders: zzHolders(variant), Orchestrator: orch})
	return err
}
