package keeper

// C18 — price and holder attestations need a distinct-validator quorum (oracle module).
// The real msg server, AddClaim/voteForAttestation/tryAttestation/ProcessCurrentEpoch and the holders branch of the
// real AttestationHandler run over plain-Go stubs; the price branch (which expands every price `power` times,
// ~65 535 entries per name) is replaced by a recorder through the keeper's AttestationHandler interface field.

import (
	"bytes"
	"math/big"

	"github.com/cosmos/cosmos-sdk/codec"
	sdk "github.com/cosmos/cosmos-sdk/types"
	paramstypes "github.com/cosmos/cosmos-sdk/x/params/types"
	stakingtypes "github.com/cosmos/cosmos-sdk/x/staking/types"
	"github.com/tendermint/tendermint/libs/log"
	tmproto "github.com/tendermint/tendermint/proto/tendermint/types"

	mhubtypes "github.com/MinterTeam/mhub2/module/x/mhub2/types"
	"github.com/MinterTeam/mhub2/module/x/oracle/types"
	"github.com/MinterTeam/mhub2/module/x/zzverif/vrt"
)

type zzVal struct {
	Oper   sdk.ValAddress
	Power  int64
	Bonded bool
}

type zzStaking struct{ Vals []zzVal }

func (s *zzStaking) validator(v zzVal) stakingtypes.Validator {
	st := stakingtypes.Unbonded
	if v.Bonded {
		st = stakingtypes.Bonded
	}
	return stakingtypes.Validator{OperatorAddress: v.Oper.String(), Status: st, Tokens: sdk.NewInt(v.Power)}
}
func (s *zzStaking) GetBondedValidatorsByPower(ctx sdk.Context) []stakingtypes.Validator {
	var out []stakingtypes.Validator
	for _, v := range s.Vals {
		if v.Bonded {
			out = append(out, s.validator(v))
		}
	}
	return out
}
func (s *zzStaking) GetLastValidatorPower(ctx sdk.Context, operator sdk.ValAddress) int64 {
	for _, v := range s.Vals {
		if v.Bonded && bytes.Equal(v.Oper, operator) {
			return v.Power
		}
	}
	return 0
}
func (s *zzStaking) GetLastTotalPower(ctx sdk.Context) sdk.Int {
	t := sdk.ZeroInt()
	for _, v := range s.Vals {
		if v.Bonded {
			t = t.Add(sdk.NewInt(v.Power))
		}
	}
	return t
}
func (s *zzStaking) IterateValidators(sdk.Context, func(int64, stakingtypes.ValidatorI) bool)              {}
func (s *zzStaking) IterateBondedValidatorsByPower(sdk.Context, func(int64, stakingtypes.ValidatorI) bool) {}
func (s *zzStaking) IterateLastValidators(sdk.Context, func(int64, stakingtypes.ValidatorI) bool)          {}
func (s *zzStaking) Validator(ctx sdk.Context, addr sdk.ValAddress) stakingtypes.ValidatorI {
	for _, v := range s.Vals {
		if bytes.Equal(v.Oper, addr) {
			return s.validator(v)
		}
	}
	return nil
}
func (s *zzStaking) ValidatorByConsAddr(sdk.Context, sdk.ConsAddress) stakingtypes.ValidatorI { return nil }
func (s *zzStaking) Slash(sdk.Context, sdk.ConsAddress, int64, int64, sdk.Dec)                  {}
func (s *zzStaking) Jail(sdk.Context, sdk.ConsAddress)                                          {}

type zzMhub struct{}

func (zzMhub) GetTokenInfos(sdk.Context) *mhubtypes.TokenInfos {
	return &mhubtypes.TokenInfos{TokenInfos: []*mhubtypes.TokenInfo{{Id: 1, Denom: "hub", ChainId: "ethereum", ExternalTokenId: "0x01", ExternalDecimals: 18, Commission: sdk.ZeroDec()}}}
}

// zzHandler: the real handler for holder claims, a recorder for price claims.
type zzHandler struct {
	real        AttestationHandler
	priceCalls  int
	priceVotes  []string
	holderCalls int
	holderVotes []string
}

func (h *zzHandler) Handle(ctx sdk.Context, att types.Attestation, claim types.Claim) error {
	switch claim.(type) {
	case *types.MsgPriceClaim:
		h.priceCalls++
		h.priceVotes = att.Votes
		return nil
	case *types.MsgHoldersClaim:
		h.holderCalls++
		h.holderVotes = att.Votes
	}
	return h.real.Handle(ctx, att, claim)
}

func zzCodec() codec.Codec { return codec.NewProtoCodec(nil) } // replaced by the engine's codec model; natively see zzNativeCodec

var (
	zzStoreKey  = sdk.NewKVStoreKey(types.StoreKey)
	zzParamKey  = sdk.NewKVStoreKey(paramstypes.StoreKey)
	zzParamTKey = sdk.NewTransientStoreKey(paramstypes.TStoreKey)
)

type zzEnv struct {
	ms      *vrt.MultiStore
	ctx     sdk.Context
	k       Keeper
	staking *zzStaking
	h       *zzHandler
}

func zzNewEnv(height int64) *zzEnv {
	ms := vrt.NewMultiStore()
	env := &zzEnv{ms: ms, staking: &zzStaking{}}
	env.ctx = sdk.NewContext(ms, tmproto.Header{Height: height}, false, log.NewNopLogger())
	cdc := zzNativeCodec()
	k := Keeper{storeKey: zzStoreKey, cdc: cdc, paramSpace: zzSubspace(cdc, zzParamKey, zzParamTKey), StakingKeeper: env.staking, Mhub2keeper: zzMhub{}}
	env.h = &zzHandler{real: AttestationHandler{keeper: k, stakingKeeper: env.staking}}
	k.AttestationHandler = env.h
	env.k = k
	return env
}

func zzNativeCodec() codec.Codec {
	if vrt.Symbolic() {
		return zzCodec()
	}
	return zzRealCodec()
}

func (e *zzEnv) store() *vrt.Store { return e.ms.KV(zzStoreKey) }

func zzPriceList(v *big.Int) *types.Prices {
	d := sdk.NewDecFromBigIntWithPrec(v, 18)
	var l []*types.Price
	for _, n := range []string{"eth", "ethereum/gas", "bnb", "bsc/gas", "hub"} {
		l = append(l, &types.Price{Name: n, Value: d})
	}
	return &types.Prices{List: l}
}

func zzHolders(variant int) *types.Holders {
	if variant == 0 {
		return &types.Holders{List: []*types.Holder{{Address: "0xaa", Value: sdk.NewInt(5)}}}
	}
	return &types.Holders{List: []*types.Holder{{Address: "0xaa", Value: sdk.NewInt(6)}}}
}

func zzSameHolders(a, b *types.Holders) bool {
	if a == nil || b == nil {
		return a == nil && b == nil
	}
	if len(a.List) != len(b.List) {
		return false
	}
	for i := range a.List {
		if a.List[i].Address != b.List[i].Address || !a.List[i].Value.Equal(b.List[i].Value) {
			return false
		}
	}
	return true
}

// ZZ_C18_Epoch: a sequence of claims in one epoch, then the epoch boundary.
func ZZ_C18_Epoch() {
	env := zzNewEnv(5)
	k, ctx := env.k, env.ctx
	E := 1 + vrt.Uint64Below("epoch", 1<<56)
	k.setCurrentEpoch(ctx, E)
	nv := 3
	for i := 0; i < nv; i++ {
		s := string(rune('0' + i))
		oper := sdk.ValAddress(vrt.Bytes("oper"+s, 20))
		for _, o := range env.staking.Vals {
			vrt.Assume(!o.Oper.Equals(oper))
		}
		p := int64(1 + vrt.Uint64Below("power"+s, 12))
		env.staking.Vals = append(env.staking.Vals, zzVal{Oper: oper, Power: p, Bonded: true})
	}
	oldHolders := &types.Holders{List: []*types.Holder{{Address: "0xold", Value: sdk.NewInt(1)}}}
	k.storeHolders(ctx, oldHolders)
	srv := msgServer{Keeper: k}
	nClaims := 2
	if vrt.Thorough() {
		nClaims = 3
	}
	kind := vrt.Choose("kind", 2) // all claims of this run are of one kind (price / holders)
	type claimRec struct {
		val, variant int
		current      bool
	}
	var made []claimRec
	for c := 0; c < nClaims; c++ {
		s := string(rune('0' + c))
		vi := vrt.Choose("claimer"+s, nv)
		ep := E
		if c < 2 { // the third claim (thorough tier) is always for the current epoch: keeps the run within the time budget
			switch vrt.Choose("claimEpoch"+s, 3) {
			case 1:
				ep = E - 1
			case 2:
				ep = E + 1
			}
		}
		variant := vrt.Choose("variant"+s, 2)
		orch := sdk.AccAddress(env.staking.Vals[vi].Oper).String()
		before := env.store().Clone()
		var err error
		if kind == 0 {
			msg := &types.MsgPriceClaim{Epoch: ep, Prices: zzPriceList(big.NewInt(int64(1 + variant))), Orchestrator: orch}
			vrt.Assume(msg.ValidateBasic() == nil)
			_, err = srv.PriceClaim(sdk.WrapSDKContext(ctx), msg)
		} else {
			msg := &types.MsgHoldersClaim{Epoch: ep, Holders: zzHolders(variant), Orchestrator: orch}
			vrt.Assume(msg.ValidateBasic() == nil)
			_, err = srv.HoldersClaim(sdk.WrapSDKContext(ctx), msg)
		}
		vrt.Assert("c18.claim.no-error", err == nil)
		// prices and holders change only at the epoch boundary
		vrt.Assert("c18.claim.changes-no-price-or-holders", env.h.priceCalls == 0 && env.h.holderCalls == 0 && zzSameHolders(k.GetHolders(ctx), oldHolders))
		if ep != E {
			vrt.Assert("c18.claim.stale-or-future-epoch-ignored", zzSameStore(before, env.store()))
		} else {
			made = append(made, claimRec{vi, variant, true})
		}
	}
	vrt.Reach("c18.claims-done")
	k.ProcessCurrentEpoch(ctx)
	vrt.Reach("c18.epoch-processed")
	vrt.Assert("c18.epoch-advanced", k.GetCurrentEpoch(ctx) == E+1)
	total := int64(0)
	for _, v := range env.staking.Vals {
		total += v.Power
	}
	// each validator's latest report counts once
	distinct := int64(0)
	latest := map[int]int{}
	for _, m := range made {
		if _, ok := latest[m.val]; !ok {
			distinct += env.staking.Vals[m.val].Power
		}
		latest[m.val] = m.variant
	}
	repeated := len(made) != len(latest)
	applied := env.h.priceCalls+env.h.holderCalls > 0
	if applied {
		floorOK := distinct >= 66*total/100
		if repeated {
			vrt.Assert("c18.quorum.floor[a validator claimed more than once in the epoch]", floorOK)
		} else {
			vrt.Assert("c18.quorum.floor", floorOK)
		}
		if floorOK {
			vrt.Assert("c18.quorum.distinct-validators-66-percent[threshold truncated to floor(66*total/100)]", 100*distinct >= 66*total)
		}
		vrt.Assert("c18.applied-once", env.h.priceCalls+env.h.holderCalls == 1)
	}
	if kind == 1 {
		now := k.GetHolders(ctx)
		if !zzSameHolders(now, oldHolders) {
			// adopted list: more than two thirds of stake reported exactly this list (latest report per validator)
			support := int64(0)
			for vi, variant := range latest {
				if zzSameHolders(now, zzHolders(variant)) {
					support += env.staking.Vals[vi].Power
				}
			}
			if repeated {
				vrt.Assert("c18.holders.identical-list-by-two-thirds[a validator claimed more than once in the epoch]", 3*support > 2*total)
			} else {
				vrt.Assert("c18.holders.identical-list-by-two-thirds", 3*support > 2*total)
			}
			vrt.Assert("c18.holders.only-at-quorum", applied)
		}
	}
}

func zzSameStore(a, b *vrt.Store) bool {
	if len(a.E) != len(b.E) {
		return false
	}
	for _, e := range a.E {
		v := b.Get(e.K)
		if v == nil || !bytes.Equal(v, e.V) {
			return false
		}
	}
	return true
}

// ZZ_C06_OracleHolders: the epoch boundary with holder claims, executed on two copies of the same state; Go's map
// iteration order (holdersTally, GetNormalizedValPowers) is chosen independently for each copy.
func ZZ_C06_OracleHolders() {
	E := 1 + vrt.Uint64Below("epoch", 1<<56)
	build := func() *zzEnv {
		env := zzNewEnv(5)
		k, ctx := env.k, env.ctx
		k.setCurrentEpoch(ctx, E)
		for i := 0; i < 3; i++ {
			s := string(rune('0' + i))
			oper := sdk.ValAddress(vrt.Bytes("oper"+s, 20))
			for _, o := range env.staking.Vals {
				vrt.Assume(!o.Oper.Equals(oper))
			}
			env.staking.Vals = append(env.staking.Vals, zzVal{Oper: oper, Power: int64(1 + vrt.Uint64Below("power"+s, 12)), Bonded: true})
		}
		srv := msgServer{Keeper: k}
		for i := 0; i < 3; i++ {
			s := string(rune('0' + i))
			if (i == 2 && !vrt.Thorough()) || !vrt.Bool("claims"+s) {
				continue
			}
			msg := &types.MsgHoldersClaim{Epoch: E, Holders: zzHolders(vrt.Choose("variant"+s, 2)), Orchestrator: sdk.AccAddress(env.staking.Vals[i].Oper).String()}
			srv.HoldersClaim(sdk.WrapSDKContext(ctx), msg)
		}
		return env
	}
	rounds := 1
	if !vrt.Symbolic() {
		rounds = 64
	}
	for r := 0; r < rounds; r++ {
		a, b := build(), build()
		a.k.ProcessCurrentEpoch(a.ctx)
		b.k.ProcessCurrentEpoch(b.ctx)
		vrt.Reach("c06.oracle.holders")
		same := zzSameStore(a.store(), b.store()) && len(a.ctx.EventManager().Events()) == len(b.ctx.EventManager().Events())
		vrt.Assert("c06.oracle.holders.same-state-and-events", same)
		if !same {
			return
		}
	}
}

// ZZ_C15_OracleRoundTrip: oracle ExportGenesis -> InitGenesis.
func ZZ_C15_OracleRoundTrip() {
	a := zzNewEnv(5)
	k, ctx := a.k, a.ctx
	E := 1 + vrt.Uint64Below("epoch", 1<<56)
	k.setCurrentEpoch(ctx, E)
	k.SetParams(ctx, *types.DefaultParams())
	// prices and holders are attested independently: either may exist without the other
	havePrices, haveHolders := vrt.Bool("have.prices"), vrt.Bool("have.holders")
	if havePrices {
		k.storePrices(ctx, zzPriceList(vrt.IntRange("price", big.NewInt(1), big.NewInt(1<<40))))
	}
	if haveHolders {
		k.storeHolders(ctx, zzHolders(0))
	}
	var gs types.GenesisState
	if vrt.Panics(func() { gs = ExportGenesis(ctx, k) }) {
		vrt.Assert("c15.oracle.export.no-panic", false)
		return
	}
	b := zzNewEnv(5)
	if vrt.Panics(func() { InitGenesis(b.ctx, b.k, gs) }) {
		vrt.Assert("c15.oracle.import.no-panic", false)
		return
	}
	vrt.Reach("c15.oracle.roundtrip")
	vrt.Check("c15.oracle.preserved[epoch]", b.k.GetCurrentEpoch(b.ctx) == E)
	pa, pb := k.GetPrices(ctx), b.k.GetPrices(b.ctx)
	if havePrices {
		vrt.Check("c15.oracle.preserved[prices]", pb != nil && len(pa.List) == len(pb.List) && pa.List[0].Value.Equal(pb.List[0].Value))
	} else {
		vrt.Check("c15.oracle.preserved[no prices]", pb == nil || len(pb.List) == 0)
	}
	ha, hb := k.GetHolders(ctx), b.k.GetHolders(b.ctx)
	if haveHolders {
		vrt.Check("c15.oracle.preserved[holders]", zzSameHolders(ha, hb))
	} else {
		vrt.Check("c15.oracle.preserved[no holders]", hb == nil || len(hb.List) == 0)
	}
}
