package keeper

import (
	"github.com/cosmos/cosmos-sdk/codec"
	codectypes "github.com/cosmos/cosmos-sdk/codec/types"
	sdk "github.com/cosmos/cosmos-sdk/types"
	paramstypes "github.com/cosmos/cosmos-sdk/x/params/types"

	"github.com/MinterTeam/mhub2/module/x/oracle/types"
)

// zzRealCodec: the codec used when a witness or counterexample is replayed natively.
func zzRealCodec() codec.Codec {
	reg := codectypes.NewInterfaceRegistry()
	types.RegisterInterfaces(reg)
	return codec.NewProtoCodec(reg)
}

// zzSubspace: natively the real params subspace over the harness store; the engine substitutes its params model.
func zzSubspace(cdc codec.Codec, key, tkey sdk.StoreKey) paramstypes.Subspace {
	return paramstypes.NewSubspace(cdc, codec.NewLegacyAmino(), key, tkey, types.ModuleName).WithKeyTable(types.ParamKeyTable())
}
