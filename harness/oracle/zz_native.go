package keeper

import (
	"github.com/cosmos/cosmos-sdk/codec"
	codectypes "github.com/cosmos/cosmos-sdk/codec/types"

	"github.com/MinterTeam/mhub2/module/x/oracle/types"
)

// zzRealCodec: the codec used when a witness or counterexample is replayed natively.
func zzRealCodec() codec.Codec {
	reg := codectypes.NewInterfaceRegistry()
	types.RegisterInterfaces(reg)
	return codec.NewProtoCodec(reg)
}
