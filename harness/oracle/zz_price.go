package keeper

// C05 / C18 — the REAL price branch of AttestationHandler.Handle.
// The epoch harnesses replace this branch by a recorder because with realistic voters it expands every price
// ~65 535 times. Here the real branch and the real GetNormalizedValPowers run, and the expansion is kept small by
// the shape of the validator set instead of a stub: one bonded validator that does not vote holds 65 535 000 power,
// so that each voter's normalised power is floor(p*65535/total) in 0..3 for p in {0, 1001, 2002, 3003}.
// Handle is driven directly with an arbitrary vote list over the voters (a superset of what ProcessCurrentEpoch
// passes: it calls Handle with the votes of an attestation that reached the quorum; a voter of normalised power 0
// or a name reported by only some voters are both possible there).

import (
	"math/big"

	sdk "github.com/cosmos/cosmos-sdk/types"

	"github.com/MinterTeam/mhub2/module/x/oracle/types"
	"github.com/MinterTeam/mhub2/module/x/zzverif/vrt"
)

func ZZ_C05_PriceHandle() {
	env := zzNewEnv(5)
	k, ctx := env.k, env.ctx
	E := 1 + vrt.Uint64Below("epoch", 1<<56)
	k.setCurrentEpoch(ctx, E)
	big0 := sdk.ValAddress(vrt.Bytes("operBig", 20))
	env.staking.Vals = append(env.staking.Vals, zzVal{Oper: big0, Power: 65535000, Bonded: true})
	nVoters := 2
	names := []string{"eth", "hub"}
	type rep struct {
		norm uint64
		has  [2]bool
		val  [2]*big.Int
	}
	var reps []rep
	att := types.Attestation{Epoch: E}
	for i := 0; i < nVoters; i++ {
		s := string(rune('0' + i))
		oper := sdk.ValAddress(vrt.Bytes("oper"+s, 20))
		for _, o := range env.staking.Vals {
			vrt.Assume(!o.Oper.Equals(oper))
		}
		np := vrt.Choose("normPower"+s, 4)
		env.staking.Vals = append(env.staking.Vals, zzVal{Oper: oper, Power: int64(np) * 1001, Bonded: true})
		r := rep{norm: uint64(np)}
		var list []*types.Price
		for j, n := range names {
			if j == 1 && !vrt.Bool("reports.hub"+s) { // the second name is optional per voter
				continue
			}
			v := vrt.IntRange("price"+s+"."+n, big.NewInt(1), big.NewInt(1<<40))
			r.has[j], r.val[j] = true, v
			list = append(list, &types.Price{Name: n, Value: sdk.NewDecFromBigIntWithPrec(v, 18)})
		}
		reps = append(reps, r)
		claim := &types.MsgPriceClaim{Epoch: E, Prices: &types.Prices{List: list}, Orchestrator: sdk.AccAddress(oper).String()}
		if err := k.storeClaim(ctx, claim); err != nil {
			vrt.Assume(false)
		}
		att.Votes = append(att.Votes, oper.String())
	}
	vrt.Reach("c05.price.handle")
	err := env.h.real.Handle(ctx, att, &types.MsgPriceClaim{Epoch: E})
	vrt.Reach("c05.price.handle.done")
	vrt.Assert("c05.price.handle.no-error", err == nil)
	// the normalised powers are what the shape of the validator set was built for
	powers := k.GetNormalizedValPowers(ctx)
	for i, r := range reps {
		vrt.Assert("c05.price.normalised-power-as-built", powers[att.Votes[i]] == r.norm)
	}
	got := k.GetPrices(ctx)
	anyWeight := false
	for _, r := range reps {
		anyWeight = anyWeight || (r.norm > 0) // every voter reports the first name
	}
	if !anyWeight {
		// an empty list is stored and reads back as nil; unreachable through ProcessCurrentEpoch (a quorum has power)
		vrt.Assert("c05.price.no-weight-no-prices", got == nil || len(got.List) == 0)
		return
	}
	vrt.Assert("c05.price.prices-stored", got != nil)
	if got == nil {
		return
	}
	// exactly the names reported by a voter of positive power, in sorted order, each once
	want := 0
	for j := range names {
		weight := uint64(0)
		for _, r := range reps {
			if r.has[j] {
				weight += r.norm
			}
		}
		if weight == 0 {
			continue
		}
		ok := want < len(got.List) && got.List[want].Name == names[j]
		vrt.Assert("c05.price.name-listed-iff-reported-with-power", ok)
		if !ok {
			return
		}
		res := got.List[want].Value.BigInt() // 18-digit fixed point of the stored price
		want++
		// weighted median of two reporters: the heavier one's value; with equal weights the mean (rounded by Dec)
		a, b := reps[0], reps[1]
		switch {
		case !b.has[j] || b.norm == 0 || (a.has[j] && a.norm > b.norm):
			vrt.Assert("c05.price.weighted-median", res.Cmp(a.val[j]) == 0)
		case !a.has[j] || a.norm == 0 || b.norm > a.norm:
			vrt.Assert("c05.price.weighted-median", res.Cmp(b.val[j]) == 0)
		default: // equal positive weights
			lo, hi := a.val[j], b.val[j]
			if lo.Cmp(hi) > 0 {
				lo, hi = hi, lo
			}
			vrt.Assert("c05.price.weighted-median", res.Cmp(lo) >= 0 && res.Cmp(hi) <= 0)
		}
	}
	vrt.Assert("c05.price.name-listed-iff-reported-with-power", want == len(got.List))
}
