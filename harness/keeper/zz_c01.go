package keeper

// C01 — bridge solvency as an inductive step. Liabilities = circulating supply + value of all transfers in flight
// (pool and pending batches of every chain), everything in units of 10^-24 of a whole token so that tokens with
// 0..24 external decimals compare exactly. Custody changes only by the ghost rule taken from the external side:
// an observed deposit adds exactly event.Amount (Hub2.sol transferToChain/sendToHub move exactly _amount, the Minter
// connector reports the full value sent), an observed batch execution removes exactly the sum of the transfers'
// amounts (Hub2.sol submitBatch pays out _amounts[i] only). Every operation must satisfy
//   liabilities_after - liabilities_before <= custody_after - custody_before.

import (
	"math/big"

	sdk "github.com/cosmos/cosmos-sdk/types"
	"github.com/ethereum/go-ethereum/common"

	"github.com/MinterTeam/mhub2/module/x/mhub2/types"
	"github.com/MinterTeam/mhub2/module/x/zzverif/vrt"
)

func zzScale(d uint64) *big.Int { return zzPow10(24 - d) }

// zzLiabilities: supply of both denoms plus every transfer in flight, in 10^-24 units.
func zzLiabilities(env *ZZEnv) *big.Int {
	k, ctx := env.K, env.Ctx
	total := new(big.Int)
	for _, d := range []string{"hub", "usdt"} {
		total.Add(total, new(big.Int).Mul(env.Bank.SupplyOf(d).BigInt(), zzPow10(6)))
	}
	for _, chain := range []types.ChainID{"ethereum", "minter", "bsc"} {
		add := func(e *types.SendToExternal) {
			ti, err := k.ExternalIdToTokenInfoLookup(ctx, chain, e.Token.ExternalTokenId)
			if err != nil {
				panic("harness: transfer of an unknown token")
			}
			v := new(big.Int).Add(e.Token.Amount.BigInt(), e.Fee.Amount.BigInt())
			v.Add(v, e.ValCommission.Amount.BigInt())
			total.Add(total, v.Mul(v, zzScale(ti.ExternalDecimals)))
		}
		for _, e := range zzPoolOf(k, ctx, chain) {
			add(e)
		}
		for _, b := range zzBatchesOf(k, ctx, chain) {
			for _, e := range b.Transactions {
				add(e)
			}
		}
	}
	return total
}

func ZZ_C01_Step() {
	o := zzStateOpts{maxPool: 1, maxBatches: 1, maxPerBatch: 1, concreteIds: true, decChoice: true, chains: []types.ChainID{"ethereum"}}
	if vrt.Thorough() {
		// two pool entries on ethereum; with the minter chain as well the relay obligation is not decided by the solver
		// within its time limit (conversions between three decimals settings), two transfers per batch take > 1 h
		o = zzStateOpts{maxPool: 2, maxBatches: 1, maxPerBatch: 1, concreteIds: true, decChoice: true, chains: []types.ChainID{"ethereum"}}
	}
	if !vrt.Thorough() {
		zzFeeBound = new(big.Int).Lsh(big.NewInt(1), 64)
	}
	st := zzBuildState(o)
	zzOrigins(st)
	env, k, ctx, chain := st.env, st.env.K, st.env.Ctx, st.chain
	for _, d := range []string{"hub", "usdt"} {
		env.Bank.SetSupply(d, sdk.NewIntFromBigInt(vrt.IntRange("supply."+d, big.NewInt(0), zzPow255)))
	}
	env.Oracle.Prices = []zzPrice{{"eth", sdk.NewDec(2000)}, {"bnb", sdk.NewDec(300)}, {"hub", sdk.NewDecWithPrec(35, 1)}, {"usdt", sdk.NewDec(1)}}
	oper := sdk.ValAddress(append(make([]byte, 19), 7))
	env.Staking.Vals = append(env.Staking.Vals, ZZVal{Oper: oper, Power: 10, Bonded: true})
	k.setValidatorExternalAddress(ctx, "minter", oper, common.BytesToAddress([]byte{0xaa}))
	dA := zzDecimalsOf(k, ctx, chain, st.idA)
	before := zzLiabilities(env)
	custody := new(big.Int) // change of the external custody caused by the observed event (ghost rule)
	failed := false
	tag := ""
	switch vrt.Choose("op", 7) {
	case 0: // observed deposit to the hub
		tag = "deposit"
		amt := vrt.IntRange("ev.amount", big.NewInt(0), zzPow255)
		rcv := sdk.AccAddress(vrt.Bytes("ev.receiver", 20))
		vrt.Assume(!rcv.Equals(zzModuleAddr) && !rcv.Equals(types.TempAddress)) // a depositor may name any account; these two are nobody's
		ev := &types.SendToHubEvent{EventNonce: 1, ExternalCoinId: st.idA, Amount: sdk.NewIntFromBigInt(amt), Sender: "0x00000000000000000000000000000000000000aa",
			CosmosReceiver: rcv.String(), ExternalHeight: 5, TxHash: "0xdead"}
		vrt.Assume(ev.Validate(chain) == nil)
		var err error
		if vrt.Panics(func() { err = k.ExternalEventProcessor.Handle(ctx, chain, ev) }) || err != nil {
			failed = true // the cache context of processExternalEvent is dropped (panics: C05)
		}
		custody.Mul(amt, zzScale(dA))
	case 1: // observed transfer to another chain (or to the hub) with a fee
		tag = "transfer-to-chain"
		amt := vrt.IntRange("ev.amount", big.NewInt(0), zzPow255)
		fee := vrt.IntRange("ev.fee", big.NewInt(0), zzPow255)
		rcv := sdk.AccAddress(vrt.Bytes("ev.receiver", 20))
		vrt.Assume(!rcv.Equals(zzModuleAddr) && !rcv.Equals(types.TempAddress))
		ev := &types.TransferToChainEvent{EventNonce: 1, ExternalCoinId: st.idA, Amount: sdk.NewIntFromBigInt(amt), Fee: sdk.NewIntFromBigInt(fee),
			Sender: "0x00000000000000000000000000000000000000aa", ReceiverChainId: []string{"hub", "minter"}[vrt.Choose("ev.dest", 2)],
			ExternalReceiver: common.BytesToAddress(rcv).Hex(), ExternalHeight: 5, TxHash: "0xdead"}
		vrt.Assume(ev.Validate(chain) == nil)
		var err error
		if vrt.Panics(func() { err = k.ExternalEventProcessor.Handle(ctx, chain, ev) }) || err != nil {
			failed = true
		}
		custody.Mul(amt, zzScale(dA))
	case 2: // withdrawal request
		tag = "send"
		sender := sdk.AccAddress(vrt.Bytes("msg.sender", 20))
		vrt.Assume(!sender.Equals(zzModuleAddr) && !sender.Equals(types.TempAddress))
		amt := vrt.IntRange("msg.amount", big.NewInt(1), zzPow255)
		fee := vrt.IntRange("msg.fee", big.NewInt(0), zzPow255)
		env.Bank.SetBalance(sender, "hub", sdk.NewIntFromBigInt(vrt.IntRange("msg.balance", big.NewInt(0), zzPow255)))
		vrt.Assume(env.Bank.SupplyOf("hub").GTE(env.Bank.Balance(sender, "hub")))
		msg := &types.MsgSendToExternal{Sender: sender.String(), ExternalRecipient: zzRecipient, Amount: sdk.Coin{Denom: "hub", Amount: sdk.NewIntFromBigInt(amt)},
			BridgeFee: sdk.Coin{Denom: "hub", Amount: sdk.NewIntFromBigInt(fee)}, ChainId: chain.String()}
		vrt.Assume(msg.ValidateBasic() == nil)
		before = zzLiabilities(env)
		var err error
		if vrt.Panics(func() { _, err = msgServer{Keeper: k}.SendToExternal(sdk.WrapSDKContext(ctx), msg) }) || err != nil {
			failed = true // rolled back by the SDK
		}
	case 3: // refund of an unbatched transfer (cancel or expiry)
		tag = "refund"
		if len(st.pool) == 0 {
			return
		}
		e := st.pool[0]
		if e.RefundChainId == "" {
			tag = "refund[system transfer without refund chain]"
		}
		var err error
		if vrt.Panics(func() { err = k.cancelSendToExternal(ctx, chain, e.Id, e.Sender) }) {
			failed = true
		}
		if err != nil && zzHubValueOf(st, e).Sign() != 0 {
			failed = true
		}
	case 4: // batching and un-batching move transfers only
		tag = "batching"
		if vrt.Choose("batching", 2) == 0 || len(st.batches) == 0 {
			if vrt.Panics(func() { k.BuildBatchTx(ctx, chain, st.idA, 2) }) {
				failed = true
			}
		} else if vrt.Panics(func() { k.CancelBatchTx(ctx, chain, st.batches[0].ExternalTokenId, st.batches[0].BatchNonce) }) {
			failed = true
		}
	case 5: // observed batch execution: the contract pays out the amounts
		tag = "batch-executed"
		if len(st.batches) == 0 {
			return
		}
		b := st.batches[0]
		feePaid := sdk.NewIntFromBigInt(vrt.IntRange("ev.feePaid", big.NewInt(0), new(big.Int).Lsh(big.NewInt(1), 20)))
		if vrt.Panics(func() { k.batchTxExecuted(ctx, chain, b.ExternalTokenId, b.BatchNonce, "exthash", feePaid, "Mxfeepayer") }) {
			failed = true
		}
		for _, t := range b.Transactions {
			d := zzDecimalsOf(k, ctx, chain, t.Token.ExternalTokenId)
			custody.Sub(custody, new(big.Int).Mul(t.Token.Amount.BigInt(), zzScale(d)))
		}
	case 6: // governance cold-storage transfer: vouchers are minted only to be burned again by the outgoing transfer
		tag = "cold-storage"
		coins := sdk.Coins{sdk.NewCoin("hub", sdk.NewIntFromBigInt(vrt.IntRange("cold.hub", big.NewInt(1), zzPow255)))}
		if vrt.Bool("cold.two-coins") {
			coins = append(coins, sdk.NewCoin("usdt", sdk.NewIntFromBigInt(vrt.IntRange("cold.usdt", big.NewInt(1), zzPow255))))
		}
		supplyBefore := []sdk.Int{env.Bank.SupplyOf("hub"), env.Bank.SupplyOf("usdt")}
		nPool := len(zzPoolOf(k, ctx, chain))
		var err error
		if vrt.Panics(func() {
			err = k.ColdStorageTransfer(ctx, &types.ColdStorageTransferProposal{ChainId: chain.String(), Amount: coins})
		}) || err != nil {
			return // a failed proposal handler is rolled back by x/gov
		}
		vrt.Reach("c01.cold-storage")
		// the destination is the bridge owners' own cold wallet: its transfers in flight are custody on the move, not a
		// liability, so the step rule is stated on the circulating supply alone
		vrt.Assert("c01.cold-storage.supply-unchanged", env.Bank.SupplyOf("hub").Equal(supplyBefore[0]) && env.Bank.SupplyOf("usdt").Equal(supplyBefore[1]))
		vrt.Assert("c01.cold-storage.one-transfer-per-coin", len(zzPoolOf(k, ctx, chain)) == nPool+len(coins))
		vrt.Assert("c01.no-stranded-vouchers."+tag, env.Bank.Balance(zzModuleAddr, "hub").IsZero() && env.Bank.Balance(types.TempAddress, "hub").IsZero() &&
			env.Bank.Balance(zzModuleAddr, "usdt").IsZero() && env.Bank.Balance(types.TempAddress, "usdt").IsZero())
		return
	}
	if failed {
		return
	}
	vrt.Reach("c01.step")
	after := zzLiabilities(env)
	vrt.Assert("c01.liabilities-covered."+tag, new(big.Int).Sub(after, before).Cmp(custody) <= 0)
	// nobody holds vouchers on the module or temporary account after a completed operation
	vrt.Assert("c01.no-stranded-vouchers."+tag, env.Bank.Balance(zzModuleAddr, "hub").IsZero() && env.Bank.Balance(types.TempAddress, "hub").IsZero() &&
		env.Bank.Balance(zzModuleAddr, "usdt").IsZero() && env.Bank.Balance(types.TempAddress, "usdt").IsZero())
}

func zzHubValueOf(st *zzState, e *types.SendToExternal) *big.Int {
	return ZZHubValue(st.env.K, st.env.Ctx, st.chain, e)
}

// ZZ_C01_ExecutedKeepsExecutable: the contract keeps one last-executed nonce per token. After an observed execution
// every other pending batch that the contract can still execute (another token, or a newer batch of the same token)
// must stay pending on the hub; releasing its transfers to the pool lets them be refunded on the hub and paid out
// externally as well.
func ZZ_C01_ExecutedKeepsExecutable() {
	st := zzBuildState(zzStateOpts{maxPool: 0, maxBatches: 3, maxPerBatch: 1, zeroFees: true, concreteIds: true})
	k, ctx, chain := st.env.K, st.env.Ctx, st.chain
	if len(st.batches) < 2 {
		return
	}
	ex := st.batches[vrt.Choose("executed", len(st.batches))]
	if vrt.Panics(func() {
		k.batchTxExecuted(ctx, chain, ex.ExternalTokenId, ex.BatchNonce, "exthash", sdk.ZeroInt(), "payer")
	}) {
		return
	}
	vrt.Reach("c01.executable")
	after := zzBatchesOf(k, ctx, chain)
	for _, b := range st.batches {
		if b == ex {
			continue
		}
		stillExecutable := b.ExternalTokenId != ex.ExternalTokenId || b.BatchNonce > ex.BatchNonce
		if stillExecutable {
			vrt.Assert("c01.externally-executable-batch-stays-pending", zzHasBatch(after, b.ExternalTokenId, b.BatchNonce))
			for _, t := range b.Transactions {
				p, _ := zzCount(k, ctx, chain, t.Id)
				vrt.Assert("c01.externally-payable-transfer-not-refundable", p == 0)
			}
		}
	}
}
