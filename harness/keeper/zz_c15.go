package keeper

// C15 — genesis export/import round trip. A state with one entry under every store prefix of types/key.go is
// exported with the real ExportGenesis and imported into a fresh store with the real InitGenesis; one obligation
// per prefix: the (key, value) pairs under it are the same before and after.

import (
	"bytes"
	"math/big"

	sdk "github.com/cosmos/cosmos-sdk/types"
	"github.com/ethereum/go-ethereum/common"

	"github.com/MinterTeam/mhub2/module/x/mhub2/types"
	"github.com/MinterTeam/mhub2/module/x/zzverif/vrt"
)

var zzPrefixNames = []struct {
	p    byte
	name string
}{
	{types.ValidatorExternalAddressKey, "validator->external address"},
	{types.OrchestratorValidatorAddressKey, "orchestrator->validator"},
	{types.ExternalOrchestratorAddressKey, "external address->orchestrator"},
	{types.ExternalSignatureKey, "confirmations (external signatures)"},
	{types.ExternalEventVoteRecordKey, "event vote records"},
	{types.OutgoingTxKey, "outgoing txs (batches, signer sets)"},
	{types.SendToExternalKey, "unbatched pool"},
	{types.LastEventNonceByValidatorKey, "last event nonce by validator"},
	{types.LastObservedEventNonceKey, "last observed event nonce"},
	{types.LatestSignerSetTxNonceKey, "latest signer set nonce"},
	{types.LastSlashedOutgoingTxBlockKey, "last slashed outgoing tx block"},
	{types.LastOutgoingBatchNonceKey, "last outgoing batch nonce"},
	{types.OutgoingSequence, "outgoing sequence"},
	{types.LastSendToExternalIDKey, "last send-to-external id"},
	{types.LastExternalBlockHeightKey, "last observed external height"},
	{types.TokenInfosKey, "token infos"},
	{types.LastUnBondingBlockHeightKey, "last unbonding height"},
	{types.LastObservedSignerSetKey, "last observed signer set"},
	{types.TxStatusKey, "tx status"},
	{types.TxFeeRecordKey, "tx fee records"},
}

func ZZ_C15_RoundTrip() {
	height := int64(vrt.Uint64Below("height", 1<<40))
	a := ZZNewEnv(height, 1000)
	k, ctx := a.K, a.Ctx
	k.setParams(ctx, zzDefaultParams())
	k.SetTokenInfos(ctx, zzTokenInfos("1", 18))
	chain := types.ChainID("ethereum")
	// delegate keys
	oper := sdk.ValAddress(vrt.Bytes("oper", 20))
	orch := sdk.AccAddress(vrt.Bytes("orch", 20))
	ext := common.BytesToAddress(vrt.Bytes("ext", 20))
	k.SetOrchestratorValidatorAddress(ctx, chain, oper, orch)
	k.setValidatorExternalAddress(ctx, chain, oper, ext)
	k.setExternalOrchestratorAddress(ctx, chain, ext, orch)
	// pool, outgoing txs, confirmation
	k.setUnbatchedSendToExternal(ctx, chain, zzSteNamed("p", chain, zzEthTokA, 2, false))
	seq0 := vrt.Uint64Below("seq0", 1<<56)
	k.setOutgoingSequence(ctx, chain, seq0)
	batchNonce := 1 + vrt.Uint64Below("batchNonce", 1<<56)
	k.SetOutgoingTx(ctx, chain, &types.BatchTx{BatchNonce: batchNonce, Timeout: vrt.Uint64Below("timeout", 1<<56), ExternalTokenId: zzEthTokA, Height: 3,
		Transactions: []*types.SendToExternal{zzSteNamed("b", chain, zzEthTokA, 2, false)}})
	ssNonce := 1 + vrt.Uint64Below("ssNonce", 1<<56)
	k.SetLatestSignerSetTxNonce(ctx, chain, ssNonce)
	k.SetOutgoingTx(ctx, chain, types.NewSignerSetTx(ssNonce, 2, types.ExternalSigners{{Power: vrt.Uint64Below("sspower", 1<<32), ExternalAddress: ext.Hex()}}))
	k.SetExternalSignature(ctx, chain, &types.BatchTxConfirmation{ExternalTokenId: zzEthTokA, BatchNonce: batchNonce, ExternalSigner: ext.Hex(), Signature: vrt.Bytes("sig", 2)}, oper)
	// votes in progress
	lastObs := vrt.Uint64Below("lastObserved", 1<<56)
	k.setLastObservedEventNonce(ctx, chain, lastObs)
	ev := &types.SendToHubEvent{EventNonce: lastObs + 1, ExternalCoinId: zzEthTokA, Amount: sdk.NewIntFromBigInt(vrt.IntRange("evAmount", big.NewInt(1<<24), big.NewInt(1<<30))),
		Sender: "0x00000000000000000000000000000000000000aa", CosmosReceiver: sdk.AccAddress(orch).String(), ExternalHeight: 7, TxHash: "0xfeed"}
	any, _ := types.PackEvent(ev)
	k.setExternalEventVoteRecord(ctx, chain, ev.EventNonce, ev.Hash(), &types.ExternalEventVoteRecord{Event: any, Votes: []string{oper.String()}})
	k.setLastEventNonceByValidator(ctx, chain, oper, ev.EventNonce)
	// a second validator that lags behind, is level with, or is ahead of the last observed event: any stored nonce
	oper2 := sdk.ValAddress(vrt.Bytes("oper2", 20))
	vrt.Assume(!oper2.Equals(oper))
	k.setLastEventNonceByValidator(ctx, chain, oper2, vrt.Uint64Below("valNonce2", 1<<56))
	// counters and records
	k.setLastOutgoingBatchNonce(ctx, chain, batchNonce)
	zzSetLastID(a, chain, vrt.Uint64Below("lastID", 1<<56))
	k.SetLastObservedExternalBlockHeight(ctx, chain, vrt.Uint64Below("extHeight", 1<<56))
	k.SetLastSlashedOutgoingTxBlockHeight(ctx, chain, vrt.Uint64Below("slashedBlock", 1<<56))
	k.setLastUnbondingBlockHeight(ctx, vrt.Uint64Below("unbondingHeight", 1<<56))
	k.setLastObservedSignerSetTx(ctx, chain, types.SignerSetTx{Nonce: vrt.Uint64Below("obsNonce", 1<<56), Signers: types.ExternalSigners{{Power: 7, ExternalAddress: ext.Hex()}}})
	k.SetTxStatus(ctx, "0xin", types.TX_STATUS_BATCH_CREATED, "")
	k.SetTxFeeRecord(ctx, "0xin", types.TxFeeRecord{ValCommission: sdk.NewInt(1), ExternalFee: sdk.NewInt(2)})

	// a second chain in a different condition: counters and a validator nonce, but no signer set observed yet and
	// no delegate keys (restoring one kind of entry must not depend on another kind being present)
	chain2 := types.ChainID("bsc")
	k.setLastOutgoingBatchNonce(ctx, chain2, 1+vrt.Uint64Below("c2.batchNonce", 1<<56))
	k.SetLastObservedExternalBlockHeight(ctx, chain2, 1+vrt.Uint64Below("c2.extHeight", 1<<56))
	k.setLastObservedEventNonce(ctx, chain2, vrt.Uint64Below("c2.lastObserved", 1<<56))
	k.setLastEventNonceByValidator(ctx, chain2, oper, vrt.Uint64Below("c2.valNonce", 1<<56))
	k.setOutgoingSequence(ctx, chain2, vrt.Uint64Below("c2.seq", 1<<56))

	var gs types.GenesisState
	if vrt.Panics(func() { gs = ExportGenesis(ctx, k) }) {
		vrt.Assert("c15.export.no-panic", false)
		return
	}
	b := ZZNewEnv(height, 1000)
	if vrt.Panics(func() { InitGenesis(b.Ctx, b.K, gs) }) {
		vrt.Assert("c15.import.no-panic", false)
		return
	}
	vrt.Reach("c15.roundtrip")
	sa, sb := a.Store(), b.Store()
	for _, pn := range zzPrefixNames {
		same := true
		na, nb := 0, 0
		for _, e := range sa.E {
			if e.K[0] != pn.p {
				continue
			}
			na++
			v := sb.Get(e.K)
			if v == nil || !bytes.Equal(v, e.V) {
				same = false
			}
		}
		// entries that exist only after the import must be absent-equivalent (zero counters written for every chain)
		for _, e := range sb.E {
			if e.K[0] == pn.p && sa.Get(e.K) == nil {
				nb++
				if pn.p == types.LastExternalBlockHeightKey {
					continue // a marshalled LatestBlockHeight for the other chains (zero external height)
				}
				if !bytes.Equal(e.V, sdk.Uint64ToBigEndian(0)) && len(e.V) != 0 {
					same = false
				}
			}
		}
		vrt.Check("c15.preserved["+pn.name+"]", same && na >= 1)
	}
	pa, pb := k.GetParams(ctx), b.K.GetParams(b.Ctx)
	vrt.Check("c15.preserved[params]", pa.GravityId == pb.GravityId && pa.OutgoingTxTimeout == pb.OutgoingTxTimeout && len(pa.Chains) == len(pb.Chains) && pa.AverageBlockTime == pb.AverageBlockTime)
}
