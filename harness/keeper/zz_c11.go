package keeper

// C11 — amounts credited, debited and paid out are exact.

import (
	"math/big"

	sdk "github.com/cosmos/cosmos-sdk/types"
	"github.com/ethereum/go-ethereum/common"

	"github.com/MinterTeam/mhub2/module/x/mhub2/types"
	"github.com/MinterTeam/mhub2/module/x/zzverif/vrt"
)

var zzE18 = new(big.Int).Exp(big.NewInt(10), big.NewInt(18), nil)

func zzDecimalsChoice(name string) uint64 {
	if vrt.Thorough() {
		return uint64(vrt.Choose(name, 25)) // every value 0..24
	}
	return []uint64{6, 18, 24}[vrt.Choose(name, 3)]
}

// zzRate: commission rate in [0,1) as sdk.Dec
func zzRate(name string) sdk.Dec {
	if vrt.Thorough() {
		// the product rate*(amount+fee) with both symbolic is beyond the solver (unknown): eight rates instead
		return []sdk.Dec{sdk.ZeroDec(), sdk.NewDecWithPrec(1, 18), sdk.NewDecWithPrec(1, 2), sdk.NewDecWithPrec(5, 1),
			sdk.NewDecWithPrec(7, 3), sdk.NewDecFromBigIntWithPrec(new(big.Int).Sub(zzE18, big.NewInt(1)), 18)}[vrt.Choose(name, 6)]
	}
	return []sdk.Dec{sdk.ZeroDec(), sdk.NewDecWithPrec(1, 2), sdk.NewDecWithPrec(5, 1), sdk.NewDecFromBigIntWithPrec(new(big.Int).Sub(zzE18, big.NewInt(1)), 18)}[vrt.Choose(name, 4)]
}

func zzMulDiv(a, b, c *big.Int) *big.Int { // floor(a*b/c)
	r := new(big.Int).Mul(a, b)
	return r.Quo(r, c)
}

const zzRecipient = "0x0000000000000000000000000000000000000009"

func ZZ_C11_SendToExternal() {
	env := ZZNewEnv(10, 1000)
	k, ctx := env.K, env.Ctx
	k.setParams(ctx, zzDefaultParams())
	chain := types.ChainID("ethereum")
	dec := zzDecimalsChoice("decimals")
	rate := zzRate("rate")
	k.SetTokenInfos(ctx, &types.TokenInfos{TokenInfos: []*types.TokenInfo{
		{Id: 1, Denom: "hub", ChainId: "ethereum", ExternalTokenId: zzEthTokA, ExternalDecimals: dec, Commission: rate},
		{Id: 2, Denom: "hub", ChainId: "minter", ExternalTokenId: "0", ExternalDecimals: 18, Commission: rate},
	}})
	sender := sdk.AccAddress(vrt.Bytes("sender", 20))
	vrt.Assume(!sender.Equals(zzModuleAddr) && !sender.Equals(types.TempAddress))
	hSender := vrt.IntRange("holder.sender", big.NewInt(0), new(big.Int).Lsh(big.NewInt(1), 80))
	hRcpt := vrt.IntRange("holder.recipient", big.NewInt(0), new(big.Int).Lsh(big.NewInt(1), 80))
	env.Oracle.Holders = []zzHolder{
		{Addr: sender.String(), Value: sdk.NewIntFromBigInt(hSender)},
		{Addr: zzRecipient[2:], Value: sdk.NewIntFromBigInt(hRcpt)},
	}
	denom := []string{"hub", "nope"}[vrt.Choose("denom", 2)]
	amount := vrt.IntRange("amount", new(big.Int).Neg(big.NewInt(5)), zzPow255)
	fee := vrt.IntRange("fee", new(big.Int).Neg(big.NewInt(5)), zzPow255)
	msg := &types.MsgSendToExternal{
		Sender:            sender.String(),
		ExternalRecipient: zzRecipient,
		Amount:            sdk.Coin{Denom: denom, Amount: sdk.NewIntFromBigInt(amount)},
		BridgeFee:         sdk.Coin{Denom: denom, Amount: sdk.NewIntFromBigInt(fee)},
		ChainId:           []string{"ethereum", "nochain"}[vrt.Choose("msg.chain", 2)],
	}
	vrt.Assume(msg.ValidateBasic() == nil)
	bal0 := vrt.IntRange("balance", big.NewInt(0), zzPow255)
	sup0 := vrt.IntRange("supply", big.NewInt(0), zzPow255)
	vrt.Assume(sup0.Cmp(bal0) >= 0)
	env.Bank.SetBalance(sender, "hub", sdk.NewIntFromBigInt(bal0))
	env.Bank.SetSupply("hub", sdk.NewIntFromBigInt(sup0))
	last0 := vrt.Uint64Below("lastID", 1<<56)
	zzSetLastID(env, chain, last0)

	srv := msgServer{Keeper: k}
	var resp *types.MsgSendToExternalResponse
	var err error
	if vrt.Panics(func() { resp, err = srv.SendToExternal(sdk.WrapSDKContext(ctx), msg) }) {
		return // rolled back by the SDK; panic-freedom of block processing is C05
	}
	balAfter := env.Bank.Balance(sender, "hub").BigInt()
	supAfter := env.Bank.SupplyOf("hub").BigInt()
	pool := zzPoolOf(k, ctx, chain)
	if err != nil {
		vrt.Reach("c11.send.failed")
		vrt.Assert("c11.send.failed-no-change", balAfter.Cmp(bal0) == 0 && supAfter.Cmp(sup0) == 0 && len(pool) == 0 &&
			env.Bank.Balance(zzModuleAddr, "hub").IsZero() && zzGetLastID(env, chain) == last0)
		return
	}
	vrt.Reach("c11.send.ok")
	total := new(big.Int).Add(amount, fee)
	vrt.Assert("c11.send.debit-exact", new(big.Int).Sub(bal0, balAfter).Cmp(total) == 0)
	vrt.Assert("c11.send.burned", new(big.Int).Sub(sup0, supAfter).Cmp(total) == 0 && env.Bank.Balance(zzModuleAddr, "hub").IsZero())
	vrt.Assert("c11.send.one-entry", len(pool) == 1 && resp.Id == last0+1)
	if len(pool) != 1 {
		return
	}
	e := pool[0]
	rateInt := rate.BigInt()
	cMax := zzMulDiv(rateInt, total, zzE18) // floor(rate * (amount+fee))
	// commission in external units never exceeds the configured rate
	vrt.Assert("c11.send.commission-at-most-rate", e.ValCommission.Amount.BigInt().Cmp(zzConv(18, dec, cMax)) <= 0)
	vrt.Assert("c11.send.commission-nonneg", !e.ValCommission.Amount.IsNegative() && !e.Token.Amount.IsNegative())
	vrt.Assert("c11.send.fee-recorded", e.Fee.Amount.BigInt().Cmp(zzConv(18, dec, fee)) == 0)
	// amount - commission is scheduled: conv(amount-c) + conv(c) is conv(amount) up to one unit of truncation
	sum := new(big.Int).Add(e.Token.Amount.BigInt(), e.ValCommission.Amount.BigInt())
	ca := zzConv(18, dec, amount)
	vrt.Assert("c11.send.amount-minus-commission", sum.Cmp(ca) <= 0 && new(big.Int).Add(sum, big.NewInt(1)).Cmp(ca) >= 0)
	// holder tiers: exactly the documented boundaries
	maxH := hSender
	if hRcpt.Cmp(maxH) > 0 {
		maxH = hRcpt
	}
	disc := int64(0)
	for i, t := range []int64{1, 2, 4, 8, 16, 32} {
		if maxH.Cmp(new(big.Int).Mul(big.NewInt(t), zzE18)) >= 0 {
			disc = int64(10 * (i + 1))
		}
	}
	eff := rate
	if disc > 0 {
		eff = rate.Sub(rate.MulInt64(disc).QuoInt64(100))
	}
	cRef := zzMulDiv(eff.BigInt(), total, zzE18)
	vrt.Assert("c11.send.commission-tier", e.ValCommission.Amount.BigInt().Cmp(zzConv(18, dec, cRef)) == 0 &&
		e.Token.Amount.BigInt().Cmp(zzConv(18, dec, new(big.Int).Sub(amount, cRef))) == 0)
	vrt.Assert("c11.send.recipient", e.ExternalRecipient == msg.ExternalRecipient && e.Sender == msg.Sender && e.RefundChainId == "hub" && e.RefundAddress == msg.Sender)
}

// ZZ_C11_Deposit: an observed deposit credits exactly conv(locked amount) to the named receiver and nothing to anyone else.
func ZZ_C11_Deposit() {
	env := ZZNewEnv(10, 1000)
	k, ctx := env.K, env.Ctx
	k.setParams(ctx, zzDefaultParams())
	chain := types.ChainID("ethereum")
	dec := zzDecimalsChoice("decimals")
	k.SetTokenInfos(ctx, &types.TokenInfos{TokenInfos: []*types.TokenInfo{
		{Id: 1, Denom: "hub", ChainId: "ethereum", ExternalTokenId: zzEthTokA, ExternalDecimals: dec, Commission: sdk.NewDecWithPrec(1, 2)},
		{Id: 2, Denom: "hub", ChainId: "minter", ExternalTokenId: "0", ExternalDecimals: 18, Commission: sdk.NewDecWithPrec(1, 2)},
	}})
	rcv := sdk.AccAddress(vrt.Bytes("receiver", 20))
	vrt.Assume(!rcv.Equals(zzModuleAddr) && !rcv.Equals(types.TempAddress))
	amount := vrt.IntRange("amount", big.NewInt(0), zzPow255)
	fee := vrt.IntRange("fee", big.NewInt(0), zzPow255)
	bal0 := vrt.IntRange("balance", big.NewInt(0), zzPow255)
	sup0 := vrt.IntRange("supply", big.NewInt(0), zzPow255)
	vrt.Assume(sup0.Cmp(bal0) >= 0)
	env.Bank.SetBalance(rcv, "hub", sdk.NewIntFromBigInt(bal0))
	env.Bank.SetSupply("hub", sdk.NewIntFromBigInt(sup0))
	var ev types.ExternalEvent
	kind := vrt.Choose("kind", 2)
	if kind == 0 {
		ev = &types.SendToHubEvent{EventNonce: 1, ExternalCoinId: zzEthTokA, Amount: sdk.NewIntFromBigInt(amount),
			Sender: "0x00000000000000000000000000000000000000aa", CosmosReceiver: rcv.String(), ExternalHeight: 5, TxHash: "0xdead"}
	} else {
		ev = &types.TransferToChainEvent{EventNonce: 1, ExternalCoinId: zzEthTokA, Amount: sdk.NewIntFromBigInt(amount), Fee: sdk.NewIntFromBigInt(fee),
			Sender: "0x00000000000000000000000000000000000000aa", ReceiverChainId: "hub",
			ExternalReceiver: common.BytesToAddress(rcv).Hex(), ExternalHeight: 5, TxHash: "0xdead"}
	}
	vrt.Assume(ev.Validate(chain) == nil)
	var err error
	if vrt.Panics(func() { err = k.ExternalEventProcessor.Handle(ctx, chain, ev) }) {
		return // C05
	}
	if err != nil {
		vrt.Reach("c11.deposit.failed")
		return // executed in a cache context by processExternalEvent: dropped on error
	}
	vrt.Reach("c11.deposit.ok")
	credited := new(big.Int).Sub(env.Bank.Balance(rcv, "hub").BigInt(), bal0)
	minted := new(big.Int).Sub(env.Bank.SupplyOf("hub").BigInt(), sup0)
	want := zzConv(dec, 18, amount)
	if kind == 0 {
		vrt.Assert("c11.deposit.credit-exact[SendToHub]", credited.Cmp(want) == 0)
		vrt.Assert("c11.deposit.supply-exact[SendToHub]", minted.Cmp(want) == 0)
	} else if fee.Sign() == 0 {
		vrt.Assert("c11.deposit.credit-exact[TransferToChain->hub, fee=0]", credited.Cmp(want) == 0 && minted.Cmp(want) == 0)
	} else {
		vrt.Assert("c11.deposit.credit-exact[TransferToChain->hub, fee>0]", credited.Cmp(want) == 0 && minted.Cmp(want) == 0)
	}
	vrt.Assert("c11.deposit.nobody-else", env.Bank.Balance(zzModuleAddr, "hub").IsZero() && env.Bank.Balance(types.TempAddress, "hub").IsZero())
}

// ZZ_C11_Relay: a deposit addressed to another external chain (TransferToChainEvent, receiver chain != hub) is
// minted with the sending chain's decimals and queued on the receiving chain with the receiving chain's decimals:
// fee and commission recorded exactly, the scheduled amount is what was locked less fee and commission, and no
// voucher is left anywhere on the hub. The two chains' decimals are chosen independently.
func ZZ_C11_Relay() {
	env := ZZNewEnv(10, 1000)
	k, ctx := env.K, env.Ctx
	k.setParams(ctx, zzDefaultParams())
	chain := types.ChainID("ethereum")
	dec := zzDecimalsChoice("decimals")
	odec := []uint64{6, 18}[vrt.Choose("receiver.decimals", 2)]
	if vrt.Thorough() {
		odec = []uint64{0, 6, 8, 18, 24}[vrt.Choose("receiver.decimals.t", 5)]
	}
	rate := sdk.NewDecWithPrec(1, 2)
	k.SetTokenInfos(ctx, &types.TokenInfos{TokenInfos: []*types.TokenInfo{
		{Id: 1, Denom: "hub", ChainId: "ethereum", ExternalTokenId: zzEthTokA, ExternalDecimals: dec, Commission: rate},
		{Id: 2, Denom: "hub", ChainId: "minter", ExternalTokenId: "0", ExternalDecimals: odec, Commission: rate},
	}})
	amount := vrt.IntRange("amount", big.NewInt(0), zzPow255)
	fee := vrt.IntRange("fee", big.NewInt(0), zzPow255)
	sup0 := vrt.IntRange("supply", big.NewInt(0), zzPow255)
	env.Bank.SetSupply("hub", sdk.NewIntFromBigInt(sup0))
	last0 := vrt.Uint64Below("lastID", 1<<56)
	zzSetLastID(env, "minter", last0)
	const sender = "0x00000000000000000000000000000000000000aa"
	const receiver = "0x00000000000000000000000000000000000000bb"
	ev := &types.TransferToChainEvent{EventNonce: 1, ExternalCoinId: zzEthTokA, Amount: sdk.NewIntFromBigInt(amount), Fee: sdk.NewIntFromBigInt(fee),
		Sender: sender, ReceiverChainId: "minter", ExternalReceiver: receiver, ExternalHeight: 5, TxHash: "0xdead"}
	vrt.Assume(ev.Validate(chain) == nil)
	var err error
	if vrt.Panics(func() { err = k.ExternalEventProcessor.Handle(ctx, chain, ev) }) {
		return // C05
	}
	if err != nil {
		vrt.Reach("c11.relay.failed")
		return // executed in a cache context by processExternalEvent: dropped on error
	}
	vrt.Reach("c11.relay.ok")
	A := zzConv(dec, 18, amount)
	F := zzConv(dec, 18, fee)
	C := zzMulDiv(rate.BigInt(), A, zzE18) // no holders registered: the full rate
	vrt.Assert("c11.relay.nothing-left-on-hub", env.Bank.SupplyOf("hub").BigInt().Cmp(sup0) == 0 &&
		env.Bank.Balance(zzModuleAddr, "hub").IsZero() && env.Bank.Balance(types.TempAddress, "hub").IsZero())
	pool := zzPoolOf(k, ctx, "minter")
	vrt.Assert("c11.relay.one-entry", len(pool) == 1 && len(zzPoolOf(k, ctx, chain)) == 0)
	if len(pool) != 1 {
		return
	}
	e := pool[0]
	vrt.Assert("c11.relay.fee-recorded", e.Fee.Amount.BigInt().Cmp(zzConv(18, odec, F)) == 0)
	vrt.Assert("c11.relay.commission-recorded", e.ValCommission.Amount.BigInt().Cmp(zzConv(18, odec, C)) == 0)
	rest := new(big.Int).Sub(new(big.Int).Sub(A, C), F)
	vrt.Assert("c11.relay.amount-exact", e.Token.Amount.BigInt().Cmp(zzConv(18, odec, rest)) == 0)
	vrt.Assert("c11.relay.route", e.Id == last0+1 && e.ExternalRecipient == receiver && e.RefundChainId == "ethereum" && e.RefundAddress == sender &&
		e.Token.ExternalTokenId == "0" && e.Fee.ExternalTokenId == "0" && e.ValCommission.ExternalTokenId == "0")
}
