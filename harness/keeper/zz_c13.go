package keeper

// C13 — batches are invalidated only when they can no longer execute.

import (
	sdk "github.com/cosmos/cosmos-sdk/types"

	"github.com/MinterTeam/mhub2/module/x/mhub2/types"
	"github.com/MinterTeam/mhub2/module/x/zzverif/vrt"
)

func zzC13Opts() zzStateOpts {
	o := zzStateOpts{maxPool: 0, maxBatches: 3, maxPerBatch: 1, zeroFees: true, concreteIds: true}
	if vrt.Thorough() {
		o = zzStateOpts{maxPool: 1, maxBatches: 3, maxPerBatch: 1, zeroFees: true, concreteIds: true}
	}
	return o
}

func zzHasBatch(bs []*types.BatchTx, tok string, nonce uint64) bool {
	for _, b := range bs {
		if b.ExternalTokenId == tok && b.BatchNonce == nonce {
			return true
		}
	}
	return false
}

// ZZ_C13_Executed: an observed execution removes exactly that batch and returns exactly the older same-token
// batches to the pool (Ethereum/BSC); on Minter nothing else is withdrawn.
func ZZ_C13_Executed() {
	st := zzBuildState(zzC13Opts())
	k, ctx, chain := st.env.K, st.env.Ctx, st.chain
	if len(st.batches) == 0 {
		return
	}
	ex := st.batches[vrt.Choose("executed", len(st.batches))]
	if vrt.Panics(func() {
		k.batchTxExecuted(ctx, chain, ex.ExternalTokenId, ex.BatchNonce, "exthash", sdk.ZeroInt(), "payer")
	}) {
		return
	}
	vrt.Reach("c13.executed")
	after := zzBatchesOf(k, ctx, chain)
	vrt.Assert("c13.executed.removed", !zzHasBatch(after, ex.ExternalTokenId, ex.BatchNonce))
	for _, b := range st.batches {
		if b == ex {
			continue
		}
		older := b.ExternalTokenId == ex.ExternalTokenId && b.BatchNonce < ex.BatchNonce
		still := zzHasBatch(after, b.ExternalTokenId, b.BatchNonce)
		if chain == "minter" {
			vrt.Assert("c13.executed.minter-never-withdrawn", still)
			continue
		}
		if older {
			vrt.Assert("c13.executed.older-same-token-cancelled", !still)
			for _, t := range b.Transactions {
				p, bb := zzCount(k, ctx, chain, t.Id)
				vrt.Assert("c13.executed.cancelled-back-in-pool", p == 1 && bb == 0)
			}
		} else {
			vrt.Assert("c13.executed.others-untouched", still)
		}
	}
	vrt.Assert("c13.executed.no-new-batches", len(after) <= len(st.batches)-1)
}

// ZZ_C13_CancelOnlyTimedOut: the keeper primitives the timeout sweep relies on (CancelBatchTx, the observed-height
// record) driven by a harness loop; the real abci.cleanupTimedOutBatchTxs is ZZ_C13_Cleanup (package mhub2), whose
// obligations are the c13.cleanup.* ones.
func ZZ_C13_CancelOnlyTimedOut() {
	st := zzBuildState(zzC13Opts())
	k, ctx, chain := st.env.K, st.env.Ctx, st.chain
	if chain == "minter" {
		// CancelBatchTx refuses Minter batches
		if len(st.batches) > 0 {
			b := st.batches[0]
			p := vrt.Panics(func() { k.CancelBatchTx(ctx, chain, b.ExternalTokenId, b.BatchNonce) })
			vrt.Reach("c13.minter-cancel")
			vrt.Assert("c13.minter-cancel-refused", p)
			vrt.Assert("c13.minter-cancel-kept", zzHasBatch(zzBatchesOf(k, ctx, chain), b.ExternalTokenId, b.BatchNonce))
		}
		return
	}
	extHeight := vrt.Uint64Below("extHeight", 1<<56)
	k.SetLastObservedExternalBlockHeight(ctx, chain, extHeight)
	observed := k.GetLastObservedExternalBlockHeight(ctx, chain).ExternalHeight
	vrt.Assert("c13.height-roundtrip", observed == extHeight)
	k.IterateOutgoingTxsByType(ctx, chain, types.BatchTxPrefixByte, func(key []byte, otx types.OutgoingTx) bool {
		btx, _ := otx.(*types.BatchTx)
		if btx.Timeout < observed {
			k.CancelBatchTx(ctx, chain, btx.ExternalTokenId, btx.BatchNonce)
		}
		return false
	})
	vrt.Reach("c13.cleanup")
	after := zzBatchesOf(k, ctx, chain)
	for _, b := range st.batches {
		still := zzHasBatch(after, b.ExternalTokenId, b.BatchNonce)
		if b.Timeout < extHeight {
			vrt.Assert("c13.cancel-primitive.timed-out-withdrawn", !still)
			for _, t := range b.Transactions {
				p, bb := zzCount(k, ctx, chain, t.Id)
				vrt.Assert("c13.cancel-primitive.back-in-pool", p == 1 && bb == 0)
			}
		} else {
			vrt.Assert("c13.cancel-primitive.live-batch-kept", still)
		}
	}
}
