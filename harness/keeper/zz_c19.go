package keeper

// C19 — fees and commissions are distributed within what was collected. The real batchTxExecuted on a batch
// with symbolic fees/commissions, decimals, prices, reported gas cost and validator powers.

import (
	"math/big"

	sdk "github.com/cosmos/cosmos-sdk/types"
	"github.com/ethereum/go-ethereum/common"

	"github.com/MinterTeam/mhub2/module/x/mhub2/types"
	"github.com/MinterTeam/mhub2/module/x/zzverif/vrt"
)

func zzPosDec(name string, bits uint) sdk.Dec {
	{
		// fixed prices (the product chain feePaid*priceA/priceB is non-linear otherwise)
		switch name {
		case "price.eth":
			return sdk.NewDec(2000)
		case "price.bnb":
			return sdk.NewDec(300)
		default:
			return sdk.NewDecWithPrec(35, 1)
		}
	}
	return sdk.NewDecFromBigIntWithPrec(vrt.IntRange(name, big.NewInt(1), new(big.Int).Lsh(big.NewInt(1), bits)), 18)
}

// zzC19State: an executed-batch scenario (token, validators with Minter keys, prices, a pending batch).
type zzC19State struct {
	env         *ZZEnv
	chain       types.ChainID
	tokId       string
	dec, mdec   uint64
	minterAddrs []string
	txs         []*types.SendToExternal
	feePaid     sdk.Int
	sup0        *big.Int
}

// zzC19Build builds the scenario; small=true fixes chain, decimals, powers and refund chains (used by C06, where the
// subject is the order of effects, not their size).
func zzC19Build(small bool) *zzC19State {
	env := ZZNewEnv(10, 1000)
	k, ctx := env.K, env.Ctx
	k.setParams(ctx, zzDefaultParams())
	if !vrt.Thorough() {
		zzFeeBound = new(big.Int).Lsh(big.NewInt(1), 64)
	}
	chain := types.ChainID("ethereum")
	dec := uint64(6) // 6 external decimals: the collected fees (<= 63 units = 6.3e13 hub units) exceed small gas costs, so refunds happen
	if !small {
		chain = []types.ChainID{"ethereum", "minter"}[vrt.Choose("chain", 2)]
		dec = zzDecimalsChoice("decimals")
		vrt.Assume(dec == 6 || dec == 18)
	}
	tokId := zzEthTokA
	if chain == "minter" {
		tokId = "7"
	}
	minterTok := "0"
	infos := []*types.TokenInfo{{Id: 1, Denom: "hub", ChainId: chain.String(), ExternalTokenId: tokId, ExternalDecimals: dec, Commission: sdk.NewDecWithPrec(1, 2)}}
	if chain != "minter" {
		infos = append(infos, &types.TokenInfo{Id: 2, Denom: "hub", ChainId: "minter", ExternalTokenId: minterTok, ExternalDecimals: 18, Commission: sdk.NewDecWithPrec(1, 2)})
	} else {
		minterTok = tokId
	}
	k.SetTokenInfos(ctx, &types.TokenInfos{TokenInfos: infos})
	mdec := uint64(18)
	if chain == "minter" {
		mdec = dec
	}
	// validators with registered Minter addresses
	nv := 2
	var minterAddrs []string
	for i := 0; i < nv; i++ {
		n := string(rune('0' + i))
		var oper sdk.ValAddress
		var ext common.Address
		if false {
			oper = sdk.ValAddress(vrt.Bytes("val"+n, 20))
			ext = common.BytesToAddress(vrt.Bytes("valext"+n, 20))
			for _, v := range env.Staking.Vals {
				vrt.Assume(!oper.Equals(v.Oper))
			}
		} else { // quick tier: fixed, registered validators (membership of the signer set is C09)
			oper = sdk.ValAddress(append(make([]byte, 19), byte(i+1)))
			ext = common.BytesToAddress([]byte{0xaa, byte(i + 1)})
		}
		var power int64
		if small {
			power = []int64{3, 5}[i]
		} else if vrt.Thorough() {
			power = [][]int64{{3, 5}, {1, 1}, {7, 1}, {1, 2}, {10, 60}}[vrt.Choose("powers", 5)][i]
		} else {
			// quick tier: fixed power splits; {1,2} has shares that are not exact decimal fractions
			power = [][]int64{{3, 5}, {1, 1}, {1, 2}}[vrt.Choose("powers", 3)][i]
		}
		env.Staking.Vals = append(env.Staking.Vals, ZZVal{Oper: oper, Power: power, Bonded: true})
		k.setValidatorExternalAddress(ctx, "minter", oper, ext)
		minterAddrs = append(minterAddrs, ext.Hex())
	}
	// the executed batch
	nt := 2
	if !small {
		nt = 1 + vrt.Choose("txs", 2)
	}
	{
		zzFeeBound = big.NewInt(32) // both tiers: small fees/commissions keep the pro-rata products (fee*fee/fee) decidable
	}
	var txs []*types.SendToExternal
	for i := 0; i < nt; i++ {
		ste := zzSteNamed("t"+string(rune('0'+i)), chain, tokId, 1, false)
		if i == 0 && !small {
			// the commission only meets the (concrete) power shares: any size up to several whole tokens
			ste.ValCommission.Amount = sdk.NewIntFromBigInt(vrt.IntRange("com.large", big.NewInt(0), new(big.Int).Lsh(big.NewInt(1), 72)))
		}
		if i == 1 {
			// second transfer: fee from a fixed set (a second symbolic fee makes the pro-rata refund fee*fee/(fee+fee) non-linear)
			ste.Fee.Amount = sdk.NewInt([]int64{0, 7, 31}[vrt.Choose("fee1.fixed", 3)])
		}
		ste.RefundChainId = "minter"
		if !small {
			ste.RefundChainId = []string{"minter", "hub"}[vrt.Choose("refundchain"+string(rune('0'+i)), 2)]
		}
		ste.RefundAddress = "Mx000000000000000000000000000000000000000" + string(rune('1'+i))
		for _, o := range txs {
			vrt.Assume(o.Id != ste.Id)
		}
		txs = append(txs, ste)
	}
	batch := &types.BatchTx{BatchNonce: 1, Timeout: 100, Transactions: txs, ExternalTokenId: tokId, Height: 5}
	k.SetOutgoingTx(ctx, chain, batch)
	env.Oracle.Prices = []zzPrice{{"eth", zzPosDec("price.eth", 90)}, {"bnb", zzPosDec("price.bnb", 90)}, {"hub", zzPosDec("price.hub", 90)}}
	fpBits := uint(20)
	feePaid := sdk.NewIntFromBigInt(vrt.IntRange("feePaid", big.NewInt(0), new(big.Int).Lsh(big.NewInt(1), fpBits)))
	sup0 := env.Bank.SupplyOf("hub").BigInt()

	return &zzC19State{env: env, chain: chain, tokId: tokId, dec: dec, mdec: mdec, minterAddrs: minterAddrs, txs: txs, feePaid: feePaid, sup0: sup0}
}

func ZZ_C19_Distribution() {
	st := zzC19Build(false)
	env, k, ctx, chain, tokId, dec, mdec, minterAddrs, txs, feePaid, sup0 := st.env, st.env.K, st.env.Ctx, st.chain, st.tokId, st.dec, st.mdec, st.minterAddrs, st.txs, st.feePaid, st.sup0
	if vrt.Panics(func() { k.batchTxExecuted(ctx, chain, tokId, 1, "exthash", feePaid, "Mxfeepayer") }) {
		vrt.Reach("c19.panicked")
		return // C05
	}
	vrt.Reach("c19.executed")
	totalCom, totalFee := new(big.Int), new(big.Int)
	for _, t := range txs {
		totalCom.Add(totalCom, t.ValCommission.Amount.BigInt())
		totalFee.Add(totalFee, t.Fee.Amount.BigInt())
	}
	T := zzConv(dec, 18, totalCom)                                    // commission collected, hub units
	F := zzConv(dec, 18, totalFee)                                    // fees collected, hub units
	toHub := func(x *big.Int) *big.Int { return zzConv(mdec, 18, x) } // Minter external units -> hub units (floor)
	out := zzPoolOf(k, ctx, "minter")
	paidCom, paidFee := new(big.Int), new(big.Int)
	reimb := new(big.Int)
	for _, o := range out {
		amt := o.Token.Amount.BigInt()
		switch o.TxHash {
		case "#commission":
			paidCom.Add(paidCom, amt)
			isVal := false
			for _, a := range minterAddrs {
				if o.ExternalRecipient == a {
					isVal = true
				}
			}
			vrt.Assert("c19.commission.to-validators", isVal)
		case "#fee":
			paidFee.Add(paidFee, amt)
			if o.ExternalRecipient == "Mxfeepayer" {
				reimb.Add(reimb, amt)
			} else {
				// a user's refund never exceeds the fee that user paid
				for _, t := range txs {
					if t.RefundAddress == o.ExternalRecipient {
						vrt.Assert("c19.refund.at-most-own-fee", toHub(amt).Cmp(zzConv(dec, 18, t.Fee.Amount.BigInt())) <= 0)
						vrt.Assert("c19.refund.only-minter-origin", t.RefundChainId == "minter")
					}
				}
			}
		}
	}
	vrt.Assert("c19.commission.sum-within-collected", toHub(paidCom).Cmp(T) <= 0)
	vrt.Assert("c19.reimbursement.within-fees", toHub(reimb).Cmp(F) <= 0)
	vrt.Assert("c19.fees.sum-within-collected", toHub(paidFee).Cmp(F) <= 0)
	// nothing is created out of thin air: net supply change is what stays on the temporary address
	vrt.Assert("c19.supply", new(big.Int).Sub(env.Bank.SupplyOf("hub").BigInt(), sup0).Cmp(env.Bank.Balance(types.TempAddress, "hub").BigInt()) == 0)
	// proportionality of the commission payouts (powers normalised by CurrentSignerSet)
	var set types.ExternalSigners
	if vrt.Panics(func() { set = k.CurrentSignerSet(ctx, "minter") }) {
		return
	}
	var P uint64
	for _, s := range set {
		P += s.Power
	}
	if T.Sign() > 0 && P > 0 {
		for _, s := range set {
			want := zzMulDiv(T, new(big.Int).SetUint64(s.Power), new(big.Int).SetUint64(P))
			got := new(big.Int)
			for _, o := range out {
				if o.TxHash == "#commission" && o.ExternalRecipient == s.ExternalAddress {
					got.Add(got, o.Token.Amount.BigInt())
				}
			}
			vrt.Assert("c19.commission.proportional", got.Cmp(zzConv(18, mdec, want)) == 0 || minterAddrs[0] == minterAddrs[1])
		}
	}
	// per-transfer fee record: the fee actually kept, between zero and the fee paid, in external units
	for _, t := range txs {
		rec := k.GetTxFeeRecord(ctx, t.TxHash)
		vrt.Assert("c19.record.exists", rec != nil)
		if rec != nil {
			cls := "[18 decimals]"
			if dec != 18 {
				cls = "[external decimals != 18]"
			}
			vrt.Assert("c19.record.within-fee-paid"+cls, !rec.ExternalFee.IsNegative() && rec.ExternalFee.LTE(t.Fee.Amount))
			vrt.Assert("c19.record.commission", rec.ValCommission.Equal(t.ValCommission.Amount))
		}
	}
}

// ZZ_C06_BatchExecuted (C06): the observed execution of a two-transfer batch with refunds and commission payouts,
// run on two copies of the same state: identical store, balances and events whatever order map iteration takes
// (transfer ids are handed out in creation order, so a map-ordered payout loop changes who gets which id).
func ZZ_C06_BatchExecuted() {
	rounds := 1
	if !vrt.Symbolic() {
		rounds = 64
	}
	for r := 0; r < rounds; r++ {
		a, b := zzC19Build(true), zzC19Build(true)
		run := func(st *zzC19State) bool {
			return vrt.Panics(func() { st.env.K.batchTxExecuted(st.env.Ctx, st.chain, st.tokId, 1, "exthash", st.feePaid, "Mxfeepayer") })
		}
		pa, pb := run(a), run(b)
		vrt.Reach("c06.batchexecuted")
		if pa || pb {
			vrt.Assert("c06.batchexecuted.same-outcome", pa == pb)
			continue
		}
		refunds := 0
		for _, o := range zzPoolOf(a.env.K, a.env.Ctx, "minter") {
			if o.TxHash == "#fee" && o.ExternalRecipient != "Mxfeepayer" {
				refunds++
			}
		}
		if refunds >= 2 {
			vrt.Reach("c06.batchexecuted.two-refunds") // several payouts whose ids depend on creation order
		}
		same := ZZSameState(a.env, b.env)
		vrt.Assert("c06.batchexecuted.same-state-and-events", same)
		if !same {
			return
		}
	}
}
