package keeper

// C09 — signer sets mirror bonded voting power.

import (
	"math/big"

	sdk "github.com/cosmos/cosmos-sdk/types"
	"github.com/ethereum/go-ethereum/common"

	"github.com/MinterTeam/mhub2/module/x/mhub2/types"
	"github.com/MinterTeam/mhub2/module/x/zzverif/vrt"
)

type ZZValSpec struct {
	Oper   sdk.ValAddress
	Ext    common.Address
	Power  int64
	Bonded bool
}

var zzMaxU32 = big.NewInt(4294967295)

// zzDigitAddrs: external addresses whose hex digits are all 0-9. The text order of checksummed addresses depends
// on the EIP-55 letter case, which is derived from keccak (uninterpreted in the engine): a counterexample that
// hinges on letter case could not be replayed natively. Digit-only addresses have one spelling.
var zzDigitAddrs bool

// ZZValidators: n validators with symbolic operator, power, bonded flag and registered address (possibly none).
func ZZValidators(env *ZZEnv, chain types.ChainID, n int, powerBound uint64) []ZZValSpec {
	return ZZValidatorsOpt(env, chain, n, powerBound, true)
}

// ZZValidatorsOpt: withKeys=false leaves the external-key registry empty (properties that do not depend on it).
func ZZValidatorsOpt(env *ZZEnv, chain types.ChainID, n int, powerBound uint64, withKeys bool) []ZZValSpec {
	var vs []ZZValSpec
	for i := 0; i < n; i++ {
		s := string(rune('0' + i))
		v := ZZValSpec{
			Oper:   sdk.ValAddress(vrt.Bytes("oper"+s, 20)),
			Power:  int64(vrt.Uint64Below("power"+s, powerBound)),
			Bonded: vrt.Bool("bonded" + s),
		}
		registered := withKeys && vrt.Bool("registered"+s)
		if registered {
			eb := vrt.Bytes("ext"+s, 20)
			if zzDigitAddrs {
				for _, x := range eb {
					vrt.Assume(x>>4 <= 9 && x&15 <= 9)
				}
			}
			v.Ext = common.BytesToAddress(eb)
			vrt.Assume(v.Ext != (common.Address{}))
		}
		for _, o := range vs {
			vrt.Assume(!o.Oper.Equals(v.Oper))
			if registered {
				vrt.Assume(o.Ext != v.Ext) // the registry is one-to-one (C17)
			}
		}
		if v.Bonded {
			vrt.Assume(v.Power >= 1) // a bonded validator has positive power
		}
		vs = append(vs, v)
		env.Staking.Vals = append(env.Staking.Vals, ZZVal{Oper: v.Oper, Power: v.Power, Bonded: v.Bonded})
		if registered {
			env.K.setValidatorExternalAddress(env.Ctx, chain, v.Oper, v.Ext)
		}
	}
	return vs
}

func ZZ_C09_SignerSet() {
	env := ZZNewEnv(int64(vrt.Uint64Below("height", 1<<40)), 1000)
	k, ctx := env.K, env.Ctx
	k.setParams(ctx, zzDefaultParams())
	chain := types.ChainID([]string{"ethereum", "minter"}[vrt.Choose("chain", 2)])
	n, pb := 2, uint64(8)
	if vrt.Thorough() {
		n, pb = 3, 12
	}
	zzDigitAddrs = true
	vs := ZZValidators(env, chain, n, pb)
	zzDigitAddrs = false
	// large stakes (total above 2^32-1): different stakes can normalise to the same published power, so the order
	// of ties is decided on published powers, not on stakes. Concrete stakes keep the division out of the solver.
	if vrt.Bool("large.stakes") {
		for i := range vs {
			p := []int64{5_000_000_000_001, 5_000_000_000_000, 4_999_999_999_999}[i%3]
			vs[i].Power = p
			env.Staking.Vals[i].Power = p
		}
	}
	// the first validator may have been jailed earlier in this block: off the power index, last power still recorded
	if vs[0].Bonded && vrt.Bool("jailedThisBlock0") {
		env.Staking.Vals[0].OffIndex = true
		vs[0].Bonded = false // no longer one of "the bonded validators" the set has to mirror
	}
	nonce0 := vrt.Uint64Below("nonce0", 1<<56)
	k.SetLatestSignerSetTxNonce(ctx, chain, nonce0)

	var tx *types.SignerSetTx
	if vrt.Panics(func() { tx = k.CreateSignerSetTx(ctx, chain) }) {
		vrt.Reach("c09.panicked")
		return // C05
	}
	vrt.Reach("c09.created")
	vrt.Assert("c09.nonce", tx.Nonce == nonce0+1 && k.GetLatestSignerSetTxNonce(ctx, chain) == nonce0+1)
	stored := k.GetLatestSignerSetTx(ctx, chain)
	vrt.Assert("c09.stored", stored != nil && stored.Nonce == tx.Nonce && len(stored.Signers) == len(tx.Signers))
	// membership: exactly the bonded validators with a registered key for this chain
	total := int64(0)
	members := 0
	for _, v := range vs {
		if v.Bonded && v.Ext != (common.Address{}) {
			members++
			total += v.Power
		}
	}
	vrt.Assert("c09.member-count", len(tx.Signers) == members)
	sum := uint64(0)
	for _, s := range tx.Signers {
		sum += s.Power
		found := false
		for _, v := range vs {
			if v.Bonded && v.Ext != (common.Address{}) && v.Ext.Hex() == s.ExternalAddress {
				found = true
				want := zzMulDiv(big.NewInt(v.Power), zzMaxU32, big.NewInt(total))
				vrt.Assert("c09.power-proportional", new(big.Int).SetUint64(s.Power).Cmp(want) == 0)
			}
		}
		vrt.Assert("c09.member-is-bonded-registered", found)
	}
	vrt.Assert("c09.total-at-most-2^32-1", sum <= 4294967295)
	// published order: non-increasing power, ties by ascending address text
	for i := 0; i+1 < len(tx.Signers); i++ {
		a, b := tx.Signers[i], tx.Signers[i+1]
		vrt.Assert("c09.sorted", a.Power > b.Power || (a.Power == b.Power && a.ExternalAddress < b.ExternalAddress))
	}
}
