package keeper

// Shared symbolic pre-state for the pool/batch properties (C04, C12, C13, C19, C01):
// an arbitrary valid bounded state — every entry is written by the real setters (real key functions),
// the representation invariant (unique ids, unique batch nonces, counters above everything in use) is assumed.

import (
	"math/big"

	sdk "github.com/cosmos/cosmos-sdk/types"

	"github.com/MinterTeam/mhub2/module/x/mhub2/types"
	"github.com/MinterTeam/mhub2/module/x/zzverif/vrt"
)

var zzFeeBound = zzPow255

type zzState struct {
	env      *ZZEnv
	chain    types.ChainID
	idA, idB string
	pool     []*types.SendToExternal
	batches  []*types.BatchTx
	lastID   uint64
	lastNon  uint64
}

type zzStateOpts struct {
	maxPool, maxBatches, maxPerBatch int
	zeroFees                         bool // batch transfers carry no fee/commission (no distribution on execution)
	chains                           []types.ChainID
	concreteIds                      bool
	symDecimals                      bool
	decChoice                        bool // token A external decimals from {6, 18, 24}
}

func zzSteNamed(n string, chain types.ChainID, tok string, tid uint64, zeroFees bool) *types.SendToExternal {
	fee, com := sdk.ZeroInt(), sdk.ZeroInt()
	if !zeroFees {
		fee = sdk.NewIntFromBigInt(vrt.IntRange("fee"+n, big.NewInt(0), zzFeeBound))
		com = sdk.NewIntFromBigInt(vrt.IntRange("com"+n, big.NewInt(0), zzFeeBound))
	}
	amt := sdk.NewIntFromBigInt(vrt.IntRange("amt"+n, big.NewInt(0), zzPow255))
	return &types.SendToExternal{
		Id:                vrt.Uint64Below("id"+n, 1<<56),
		Sender:            sdk.AccAddress(vrt.Bytes("sender"+n, 20)).String(),
		ExternalRecipient: "0x0000000000000000000000000000000000000001",
		ChainId:           chain.String(),
		Token:             types.ExternalToken{TokenId: tid, ExternalTokenId: tok, Amount: amt},
		Fee:               types.ExternalToken{TokenId: tid, ExternalTokenId: tok, Amount: fee},
		ValCommission:     types.ExternalToken{TokenId: tid, ExternalTokenId: tok, Amount: com},
		TxHash:            "h" + n,
		CreatedAt:         vrt.Uint64Below("created"+n, 1<<40),
		RefundAddress:     "Mx0000000000000000000000000000000000000002",
		RefundChainId:     "hub",
	}
}

func zzSetLastID(env *ZZEnv, chain types.ChainID, v uint64) {
	env.Store().Set(append([]byte{types.LastSendToExternalIDKey}, chain.Bytes()...), sdk.Uint64ToBigEndian(v))
}

func zzGetLastID(env *ZZEnv, chain types.ChainID) uint64 {
	bz := env.Store().Get(append([]byte{types.LastSendToExternalIDKey}, chain.Bytes()...))
	if bz == nil {
		return 0
	}
	return sdk.BigEndianToUint64(bz)
}

// zzBuildState: pool of <= maxPool transfers and <= maxBatches batches of 1..maxPerBatch transfers on one chain.
func zzBuildState(o zzStateOpts) *zzState {
	env := ZZNewEnv(int64(vrt.Uint64Below("height", 1<<40)), int64(vrt.Uint64Below("now", 1<<40)))
	st := &zzState{env: env}
	k, ctx := env.K, env.Ctx
	k.setParams(ctx, zzDefaultParams())
	chains := o.chains
	if len(chains) == 0 {
		chains = []types.ChainID{"ethereum", "minter"}
	}
	st.chain = chains[vrt.Choose("chain", len(chains))]
	if st.chain == "minter" {
		st.idA, st.idB = "1", "12"
		if !o.concreteIds {
			st.idA, st.idB = zzDigitStr("idA", 1, 2), zzDigitStr("idB", 1, 2)
			vrt.Assume(st.idA != st.idB)
		}
	} else {
		st.idA, st.idB = zzEthTokA, zzEthTokB
	}
	other := types.ChainID("minter")
	otherA, otherB := "0", "1993"
	if st.chain == "minter" {
		other, otherA, otherB = "ethereum", zzEthTokA, zzEthTokB
	}
	dA, dB := uint64(18), uint64(6)
	if o.symDecimals {
		dA = vrt.Uint64Below("decA", 25)
		dB = vrt.Uint64Below("decB", 25)
	} else if o.decChoice {
		dA = []uint64{6, 18, 24}[vrt.Choose("decA", 3)]
	}
	k.SetTokenInfos(ctx, &types.TokenInfos{TokenInfos: []*types.TokenInfo{
		{Id: 1, Denom: "hub", ChainId: st.chain.String(), ExternalTokenId: st.idA, ExternalDecimals: dA, Commission: sdk.NewDecWithPrec(1, 2)},
		{Id: 2, Denom: "usdt", ChainId: st.chain.String(), ExternalTokenId: st.idB, ExternalDecimals: dB, Commission: sdk.NewDecWithPrec(1, 2)},
		{Id: 3, Denom: "hub", ChainId: other.String(), ExternalTokenId: otherA, ExternalDecimals: 18, Commission: sdk.NewDecWithPrec(1, 2)},
		// the second token has different decimals on the two chains (6 here, 18 there): cross-chain conversions are visible
		{Id: 4, Denom: "usdt", ChainId: other.String(), ExternalTokenId: otherB, ExternalDecimals: 18, Commission: sdk.NewDecWithPrec(1, 2)},
	}})

	var all []*types.SendToExternal
	mk := func(n string) *types.SendToExternal {
		tok, tid := st.idA, uint64(1)
		if vrt.Choose("tok"+n, 2) == 1 {
			tok, tid = st.idB, 2
		}
		ste := zzSteNamed(n, st.chain, tok, tid, o.zeroFees)
		// invariant of recorded transfers: they were converted from voucher amounts whose sum fitted an sdk.Int
		d := dA
		if tid == 2 {
			d = dB
		}
		back := new(big.Int).Add(zzConv(d, 18, ste.Token.Amount.BigInt()), zzConv(d, 18, ste.Fee.Amount.BigInt()))
		back.Add(back, zzConv(d, 18, ste.ValCommission.Amount.BigInt()))
		vrt.Assume(back.Cmp(zzPow255) < 0)
		for _, x := range all {
			vrt.Assume(x.Id != ste.Id)
		}
		all = append(all, ste)
		return ste
	}
	np := vrt.Len("pool", 0, o.maxPool)
	for i := 0; i < np; i++ {
		ste := mk("p" + string(rune('0'+i)))
		st.pool = append(st.pool, ste)
		k.setUnbatchedSendToExternal(ctx, st.chain, ste)
	}
	nb := vrt.Len("batches", 0, o.maxBatches)
	for b := 0; b < nb; b++ {
		bn := "b" + string(rune('0'+b))
		nt := vrt.Len(bn+".txs", 1, o.maxPerBatch)
		var txs []*types.SendToExternal
		var tok string
		for t := 0; t < nt; t++ {
			ste := mk(bn + "t" + string(rune('0'+t)))
			if t == 0 {
				tok = ste.Token.ExternalTokenId
			} else {
				vrt.Assume(ste.Token.ExternalTokenId == tok) // a batch holds one token (C10)
			}
			txs = append(txs, ste)
		}
		batch := &types.BatchTx{
			BatchNonce:      vrt.Uint64Below(bn+".nonce", 1<<56),
			Timeout:         vrt.Uint64Below(bn+".timeout", 1<<56),
			Transactions:    txs,
			ExternalTokenId: tok,
			Height:          vrt.Uint64Below(bn+".height", 1<<40),
		}
		vrt.Assume(batch.BatchNonce >= 1)
		for _, ob := range st.batches {
			vrt.Assume(ob.BatchNonce != batch.BatchNonce)
		}
		st.batches = append(st.batches, batch)
		k.SetOutgoingTx(ctx, st.chain, batch)
	}
	// counters are at least as large as everything handed out so far
	st.lastID = vrt.Uint64Below("lastID", 1<<56)
	for _, x := range all {
		vrt.Assume(x.Id >= 1 && x.Id <= st.lastID)
	}
	zzSetLastID(env, st.chain, st.lastID)
	st.lastNon = vrt.Uint64Below("lastBatchNonce", 1<<56)
	for _, b := range st.batches {
		vrt.Assume(b.BatchNonce <= st.lastNon)
	}
	k.setLastOutgoingBatchNonce(ctx, st.chain, st.lastNon)
	return st
}

// zzPoolIds / zzBatchIds read the state back through the real iterators.
func zzPoolOf(k Keeper, ctx sdk.Context, chain types.ChainID) []*types.SendToExternal {
	return k.getUnbatchedSendToExternals(ctx, chain)
}

func zzBatchesOf(k Keeper, ctx sdk.Context, chain types.ChainID) []*types.BatchTx {
	var out []*types.BatchTx
	k.IterateOutgoingTxsByType(ctx, chain, types.BatchTxPrefixByte, func(_ []byte, otx types.OutgoingTx) bool {
		out = append(out, otx.(*types.BatchTx))
		return false
	})
	return out
}

type zzWhere struct {
	id      uint64
	inPool  int
	inBatch int
}

// zzCount: how often id occurs in the pool and in pending batches of the chain.
func zzCount(k Keeper, ctx sdk.Context, chain types.ChainID, id uint64) (pool, batch int) {
	for _, p := range zzPoolOf(k, ctx, chain) {
		if p.Id == id {
			pool++
		}
	}
	for _, b := range zzBatchesOf(k, ctx, chain) {
		for _, t := range b.Transactions {
			if t.Id == id {
				batch++
			}
		}
	}
	return
}

func zzTotalEntries(k Keeper, ctx sdk.Context, chain types.ChainID) int {
	n := len(zzPoolOf(k, ctx, chain))
	for _, b := range zzBatchesOf(k, ctx, chain) {
		n += len(b.Transactions)
	}
	return n
}
