package keeper

// C16 — confirmations are attributable, unique and correctly queryable.
// C17 — the delegate-key registry is one-to-one and self-authorised.

import (
	"crypto/ecdsa"
	"bytes"

	sdk "github.com/cosmos/cosmos-sdk/types"
	"github.com/ethereum/go-ethereum/common"
	"github.com/ethereum/go-ethereum/crypto"

	"github.com/MinterTeam/mhub2/module/x/mhub2/types"
	"github.com/MinterTeam/mhub2/module/x/zzverif/vrt"
)

type zzStoredSig struct {
	index []byte
	val   int
	sig   []byte
}

func ZZ_C16_Confirm() {
	env := ZZNewEnv(10, 1000)
	k, ctx := env.K, env.Ctx
	k.setParams(ctx, zzDefaultParams())
	chain := types.ChainID("ethereum")
	nv := 2
	vs := ZZValidators(env, chain, nv, 1<<16)
	if !vrt.Thorough() {
		// quick tier: the second validator is an ordinary bonded validator with a registered key
		vrt.Assume(vs[1].Bonded && vs[1].Ext != (common.Address{}))
	}
	orch := sdk.AccAddress(vrt.Bytes("orch0", 20))
	stranger := sdk.AccAddress(vrt.Bytes("stranger", 20))
	for _, v := range vs {
		vrt.Assume(!orch.Equals(sdk.AccAddress(v.Oper)) && !stranger.Equals(sdk.AccAddress(v.Oper)))
	}
	vrt.Assume(!orch.Equals(stranger))
	k.SetOrchestratorValidatorAddress(ctx, chain, vs[0].Oper, orch)
	// outgoing txs: one signer set and up to two batches (tokens A and B)
	ssNonce := 1 + vrt.Uint64Below("ss.nonce", 1<<56)
	k.SetOutgoingTx(ctx, chain, &types.SignerSetTx{Nonce: ssNonce, Height: 3})
	bNonceA := 1 + vrt.Uint64Below("batchA.nonce", 1<<56)
	k.SetOutgoingTx(ctx, chain, &types.BatchTx{BatchNonce: bNonceA, Timeout: 9, ExternalTokenId: zzEthTokA, Height: 3})
	haveB := true
	bNonceB := 1 + vrt.Uint64Below("batchB.nonce", 1<<56)
	if haveB {
		k.SetOutgoingTx(ctx, chain, &types.BatchTx{BatchNonce: bNonceB, Timeout: 9, ExternalTokenId: zzEthTokB, Height: 3})
	}
	idxSS := types.MakeSignerSetTxKey(chain, ssNonce)
	idxA := types.MakeBatchTxKey(chain, zzEthTokA, bNonceA)
	idxB := types.MakeBatchTxKey(chain, zzEthTokB, bNonceB)
	// signatures already stored: validator 1 on the signer set and/or on batch A
	var stored []zzStoredSig
	if vrt.Bool("v1.signed.ss") {
		s := vrt.Bytes("oldsig.ss", 2)
		k.SetExternalSignature(ctx, chain, &types.SignerSetTxConfirmation{SignerSetNonce: ssNonce, Signature: s}, vs[1].Oper)
		stored = append(stored, zzStoredSig{idxSS, 1, s})
	}
	if vrt.Bool("v1.signed.a") {
		s := vrt.Bytes("oldsig.a", 2)
		k.SetExternalSignature(ctx, chain, &types.BatchTxConfirmation{ExternalTokenId: zzEthTokA, BatchNonce: bNonceA, Signature: s}, vs[1].Oper)
		stored = append(stored, zzStoredSig{idxA, 1, s})
	}
	if haveB && vrt.Bool("v1.signed.b") {
		s := vrt.Bytes("oldsig.b", 2)
		k.SetExternalSignature(ctx, chain, &types.BatchTxConfirmation{ExternalTokenId: zzEthTokB, BatchNonce: bNonceB, Signature: s}, vs[1].Oper)
		stored = append(stored, zzStoredSig{idxB, 1, s})
	}
	// validator 0 (the one with an orchestrator) may have confirmed one of them already
	switch vrt.Choose("v0.signed", 3) {
	case 1:
		s := vrt.Bytes("oldsig0.ss", 2)
		k.SetExternalSignature(ctx, chain, &types.SignerSetTxConfirmation{SignerSetNonce: ssNonce, Signature: s}, vs[0].Oper)
		stored = append(stored, zzStoredSig{idxSS, 0, s})
	case 2:
		s := vrt.Bytes("oldsig0.a", 2)
		k.SetExternalSignature(ctx, chain, &types.BatchTxConfirmation{ExternalTokenId: zzEthTokA, BatchNonce: bNonceA, Signature: s}, vs[0].Oper)
		stored = append(stored, zzStoredSig{idxA, 0, s})
	}
	// the message
	signers := []sdk.AccAddress{orch, stranger, sdk.AccAddress(vs[0].Oper), sdk.AccAddress(vs[1].Oper)}
	si := vrt.Choose("signer", len(signers))
	who := []int{0, -1, 0, 1}[si]
	claimed := common.BytesToAddress(vrt.Bytes("claimed", 20))
	sig := vrt.Bytes("sig", 65)
	var conf types.ExternalTxConfirmation
	if vrt.Choose("kind", 2) == 0 {
		conf = &types.SignerSetTxConfirmation{SignerSetNonce: vrt.Uint64Below("conf.nonce", 1<<57), ExternalSigner: claimed.Hex(), Signature: sig}
	} else {
		tok := []string{zzEthTokA, zzEthTokB}[vrt.Choose("conf.token", 2)]
		conf = &types.BatchTxConfirmation{ExternalTokenId: tok, BatchNonce: vrt.Uint64Below("conf.nonce", 1<<57), ExternalSigner: claimed.Hex(), Signature: sig}
	}
	any, _ := types.PackConfirmation(conf)
	msg := &types.MsgSubmitExternalTxConfirmation{Confirmation: any, Signer: signers[si].String(), ChainId: "ethereum"}
	if vrt.Thorough() && vrt.Bool("msg.wrongchain") {
		msg.ChainId = "nochain"
	}
	vrt.Assume(msg.ValidateBasic() == nil)
	index := conf.GetStoreIndex(chain)
	existedBefore := ctx.KVStore(k.storeKey).Has(types.MakeOutgoingTxKey(chain, index))
	var had []byte
	if who >= 0 {
		had = k.getExternalSignature(ctx, chain, index, vs[who].Oper)
	}
	srv := msgServer{Keeper: k}
	var err error
	if vrt.Panics(func() { _, err = srv.SubmitTxConfirmation(sdk.WrapSDKContext(ctx), msg) }) {
		return
	}
	vrt.Reach("c16.returned")
	if err == nil {
		vrt.Reach("c16.accepted")
		vrt.Assert("c16.existing-tx", existedBefore)
		vrt.Assert("c16.known-signer", who >= 0)
		if who < 0 {
			return
		}
		vrt.Assert("c16.bonded", vs[who].Bonded)
		vrt.Assert("c16.registered-address-is-claimed-signer", vs[who].Ext == claimed)
		vrt.Assert("c16.at-most-once", had == nil)
		vrt.Assert("c16.recorded", bytes.Equal(k.getExternalSignature(ctx, chain, index, vs[who].Oper), sig))
		stored = append(stored, zzStoredSig{index, who, sig})
	}
	// the relayer-facing queries return exactly the stored confirmations of each outgoing tx
	respSS, _ := k.SignerSetTxConfirmations(sdk.WrapSDKContext(ctx), &types.SignerSetTxConfirmationsRequest{SignerSetNonce: ssNonce, ChainId: chain.String()})
	nSS := 0
	for _, s := range stored {
		if bytes.Equal(s.index, idxSS) {
			nSS++
			found := false
			for _, c := range respSS.Signatures {
				if c.ExternalSigner == vs[s.val].Ext.Hex() && bytes.Equal(c.Signature, s.sig) {
					found = true
				}
			}
			vrt.Assert("c16.query.signerset.contains", found)
		}
	}
	vrt.Assert("c16.query.signerset.exact", len(respSS.Signatures) == nSS)
	respA, _ := k.BatchTxConfirmations(sdk.WrapSDKContext(ctx), &types.BatchTxConfirmationsRequest{BatchNonce: bNonceA, ExternalTokenId: zzEthTokA, ChainId: chain.String()})
	nA := 0
	for _, s := range stored {
		if bytes.Equal(s.index, idxA) {
			nA++
			found := false
			for _, c := range respA.Signatures {
				if c.ExternalSigner == vs[s.val].Ext.Hex() && bytes.Equal(c.Signature, s.sig) {
					found = true
				}
			}
			vrt.Assert("c16.query.batch.contains", found)
		}
	}
	vrt.Assert("c16.query.batch.exact", len(respA.Signatures) == nA)
	// unsigned lists for validator 1 (if it can sign at all)
	if vs[1].Bonded {
		ub, e2 := k.UnsignedBatchTxs(sdk.WrapSDKContext(ctx), &types.UnsignedBatchTxsRequest{Address: sdk.AccAddress(vs[1].Oper).String(), ChainId: chain.String()})
		if e2 == nil {
			signedA := false
			for _, s := range stored {
				if s.val == 1 && bytes.Equal(s.index, idxA) {
					signedA = true
				}
			}
			hasA := false
			for _, b := range ub.Batches {
				if b.ExternalTokenId == zzEthTokA && b.BatchNonce == bNonceA {
					hasA = true
				}
			}
			vrt.Assert("c16.unsigned.batch-listed-iff-not-signed", hasA == !signedA)
			signedB, hasB := false, false
			for _, s := range stored {
				if s.val == 1 && bytes.Equal(s.index, idxB) {
					signedB = true
				}
			}
			for _, b := range ub.Batches {
				if b.ExternalTokenId == zzEthTokB && b.BatchNonce == bNonceB {
					hasB = true
				}
			}
			vrt.Assert("c16.unsigned.second-batch-listed-iff-not-signed", hasB == !signedB)
			vrt.Assert("c16.unsigned.nothing-else-listed", len(ub.Batches) <= 2)
			us, _ := k.UnsignedSignerSetTxs(sdk.WrapSDKContext(ctx), &types.UnsignedSignerSetTxsRequest{Address: sdk.AccAddress(vs[1].Oper).String(), ChainId: chain.String()})
			signedSS := false
			for _, s := range stored {
				if s.val == 1 && bytes.Equal(s.index, idxSS) {
					signedSS = true
				}
			}
			vrt.Assert("c16.unsigned.signerset-listed-iff-not-signed", (len(us.SignerSets) == 1) == !signedSS)
		}
	}
}

const zzSigPrefix = "\x19Ethereum Signed Message:\n32"

func ZZ_C17_DelegateKeys() {
	env := ZZNewEnv(10, 1000)
	k, ctx := env.K, env.Ctx
	k.setParams(ctx, zzDefaultParams())
	chain := types.ChainID([]string{"ethereum", "bsc"}[vrt.Choose("chain", 2)])
	// three validators, two of them possibly bound already (consistent indexes), on this chain
	type binding struct {
		ext  common.Address
		orch sdk.AccAddress
		has  bool
	}
	var opers []sdk.ValAddress
	var binds []binding
	// native replay: signatures cannot be forged, so the new external key is a real test key; an existing binding
	// that the solver made equal to the new external address is mapped to that key's address as well
	solverExt := common.BytesToAddress(vrt.Bytes("newext", 20))
	realExt := solverExt
	var zzKey *ecdsa.PrivateKey
	if !vrt.Symbolic() {
		zzKey, _ = crypto.HexToECDSA("b71c71a67e1177ad4e901695e1b4b9ee17ae16c6668d313eac2f96dbcda3f291")
		realExt = crypto.PubkeyToAddress(zzKey.PublicKey)
	}
	mapExt := func(a common.Address) common.Address {
		if !vrt.Symbolic() && a == solverExt {
			return realExt
		}
		return a
	}
	for i := 0; i < 3; i++ {
		s := string(rune('0' + i))
		oper := sdk.ValAddress(vrt.Bytes("oper"+s, 20))
		for _, o := range opers {
			vrt.Assume(!o.Equals(oper))
		}
		opers = append(opers, oper)
		bonded := i != 1 || vrt.Bool("bonded"+s) // bondedness plays no role in registration: one symbolic flag
		env.Staking.Vals = append(env.Staking.Vals, ZZVal{Oper: oper, Power: 5, Bonded: bonded})
		b := binding{}
		maxBound := 1
		if vrt.Thorough() {
			maxBound = 2
		}
		if i < maxBound && vrt.Bool("bound"+s) {
			b = binding{ext: mapExt(common.BytesToAddress(vrt.Bytes("ext"+s, 20))), orch: sdk.AccAddress(vrt.Bytes("orch"+s, 20)), has: true}
			if i == 1 { // the second binding (thorough tier) has fixed addresses: the message's addresses can still hit them
				b = binding{ext: common.BytesToAddress([]byte{0xbb, 1}), orch: sdk.AccAddress(append(make([]byte, 19), 0xcc)), has: true}
			}
			for _, o := range binds { // the registry is one-to-one per chain (invariant)
				if o.has {
					vrt.Assume(o.ext != b.ext && !o.orch.Equals(b.orch))
				}
			}
			k.SetOrchestratorValidatorAddress(ctx, chain, oper, b.orch)
			k.setValidatorExternalAddress(ctx, chain, oper, b.ext)
			k.setExternalOrchestratorAddress(ctx, chain, b.ext, b.orch)
			if i == 0 && vrt.Bool("alsoOtherChains"+s) { // operators use the same keys on every chain (first binding only: path budget)
				for _, oc := range []types.ChainID{"bsc", "ethereum", "minter"} {
					if oc != chain {
						k.SetOrchestratorValidatorAddress(ctx, oc, oper, b.orch)
						k.setValidatorExternalAddress(ctx, oc, oper, b.ext)
						k.setExternalOrchestratorAddress(ctx, oc, b.ext, b.orch)
					}
				}
			}
		}
		binds = append(binds, b)
	}
	// the message: any validator address (one of the three or unknown), any orchestrator / external address
	valChoice := vrt.Choose("msg.val", 4)
	var msgVal sdk.ValAddress
	if valChoice < 3 {
		msgVal = opers[valChoice]
	} else {
		msgVal = sdk.ValAddress(vrt.Bytes("unknownval", 20))
		for _, o := range opers {
			vrt.Assume(!o.Equals(msgVal))
		}
	}
	newOrch := sdk.AccAddress(vrt.Bytes("neworch", 20))
	seq := vrt.Uint64Below("sequence", 1<<56)
	newExt := realExt
	sig := vrt.Bytes("sig", 65)
	if !vrt.Symbolic() {
		// the signature is a real one over (validator, sequence-1); everything else comes from the solver's assignment
		key := zzKey
		n := uint64(0)
		if seq > 0 {
			n = seq - 1
		}
		bz := k.cdc.MustMarshal(&types.DelegateKeysSignMsg{ValidatorAddress: msgVal.String(), Nonce: n})
		sig, _ = types.NewEthereumSignature(crypto.Keccak256Hash(bz).Bytes(), key)
	}
	if vrt.Bool("hasAccount") {
		env.Account.Addrs = append(env.Account.Addrs, sdk.AccAddress(msgVal))
		env.Account.Seqs = append(env.Account.Seqs, seq)
	}
	msg := &types.MsgDelegateKeys{ValidatorAddress: msgVal.String(), OrchestratorAddress: newOrch.String(), ExternalAddress: newExt.Hex(), EthSignature: sig, ChainId: chain.String()}
	vrt.Assume(msg.ValidateBasic() == nil)
	srv := msgServer{Keeper: k}
	var err error
	if vrt.Panics(func() { _, err = srv.SetDelegateKeys(sdk.WrapSDKContext(ctx), msg) }) {
		return
	}
	vrt.Reach("c17.returned")
	if err != nil {
		return
	}
	vrt.Reach("c17.accepted")
	vrt.Assert("c17.validator-exists", valChoice < 3)
	// self-authorised: the external key signed (validator, sequence of the registering transaction)
	nonce := uint64(0)
	if seq > 0 {
		nonce = seq - 1
	}
	signMsg := k.cdc.MustMarshal(&types.DelegateKeysSignMsg{ValidatorAddress: msgVal.String(), Nonce: nonce})
	h := crypto.Keccak256Hash(signMsg).Bytes()
	norm := make([]byte, 65)
	copy(norm, sig)
	if norm[64] == 27 || norm[64] == 28 {
		norm[64] -= 27
	}
	pub, rerr := crypto.SigToPub(crypto.Keccak256Hash(append([]byte(zzSigPrefix), h...)).Bytes(), norm)
	vrt.Assert("c17.signed-by-external-key", rerr == nil && crypto.PubkeyToAddress(*pub) == newExt)
	// the three indexes now bind (validator, external address, orchestrator)
	vrt.Assert("c17.bound", k.GetValidatorExternalAddress(ctx, chain, msgVal) == newExt &&
		k.GetOrchestratorValidatorAddress(ctx, chain, newOrch).Equals(msgVal) &&
		k.GetExternalOrchestratorAddress(ctx, chain, newExt).Equals(newOrch))
	// one-to-one: nobody else holds the new external address or the new orchestrator
	for i, b := range binds {
		if !b.has || opers[i].Equals(msgVal) {
			continue
		}
		vrt.Assert("c17.one-to-one.external", b.ext != newExt)
		vrt.Assert("c17.one-to-one.orchestrator", !b.orch.Equals(newOrch))
		// other validators' bindings are untouched
		vrt.Assert("c17.others-untouched", k.GetValidatorExternalAddress(ctx, chain, opers[i]) == b.ext &&
			k.GetOrchestratorValidatorAddress(ctx, chain, b.orch).Equals(opers[i]))
	}
	// an orchestrator's messages are attributed to the validator that registered it
	if valChoice < 3 {
		v, e2 := k.getSignerValidator(ctx, chain, newOrch.String())
		if e2 == nil {
			vrt.Assert("c17.attribution", v.Equals(msgVal))
		}
	}
}
