package keeper

// C12 — cancellation refunds exactly, once, to the right party. The real msgServer.CancelSendToExternal on an
// arbitrary valid state with a fully symbolic message (chain, id, sender).

import (
	"math/big"

	sdk "github.com/cosmos/cosmos-sdk/types"

	"github.com/MinterTeam/mhub2/module/x/mhub2/types"
	"github.com/MinterTeam/mhub2/module/x/zzverif/vrt"
)

func zzPow10(d uint64) *big.Int { return new(big.Int).Exp(big.NewInt(10), big.NewInt(int64(d)), nil) }

// zzConv: exact reference for convertDecimals: floor(a * 10^to / 10^from)
func zzConv(from, to uint64, a *big.Int) *big.Int {
	r := new(big.Int).Mul(a, zzPow10(to))
	return r.Quo(r, zzPow10(from))
}

func zzDecimalsOf(k Keeper, ctx sdk.Context, chain types.ChainID, extId string) uint64 {
	ti, err := k.ExternalIdToTokenInfoLookup(ctx, chain, extId)
	if err != nil {
		panic("harness: unknown token")
	}
	return ti.ExternalDecimals
}

func zzDenomOf(k Keeper, ctx sdk.Context, chain types.ChainID, extId string) string {
	ti, err := k.ExternalIdToTokenInfoLookup(ctx, chain, extId)
	if err != nil {
		panic("harness: unknown token")
	}
	return ti.Denom
}

func zzC12Opts() zzStateOpts {
	o := zzStateOpts{maxPool: 2, maxBatches: 1, maxPerBatch: 1, concreteIds: true, chains: []types.ChainID{"ethereum"}}
	if vrt.Thorough() {
		o = zzStateOpts{maxPool: 2, maxBatches: 1, maxPerBatch: 1, concreteIds: true, decChoice: true}
	}
	return o
}

// zzOrigins gives every pool entry an origin: the hub, another chain, or none (system-created transfers).
func zzOrigins(st *zzState) {
	other := "minter"
	if st.chain == "minter" {
		other = "ethereum"
	}
	for i, e := range st.pool {
		switch vrt.Choose("origin"+string(rune('0'+i)), 3) {
		case 0:
			e.RefundChainId, e.RefundAddress = "hub", e.Sender
			addr, _ := sdk.AccAddressFromBech32(e.Sender)
			vrt.Assume(!addr.Equals(zzModuleAddr) && !addr.Equals(types.TempAddress)) // an ordinary account
		case 1:
			e.RefundChainId, e.RefundAddress = other, "0x00000000000000000000000000000000000000aa"
			e.Sender = types.TempAddress.String()
		case 2:
			e.RefundChainId, e.RefundAddress = "", ""
			e.Sender = types.TempAddress.String()
		}
		st.env.K.setUnbatchedSendToExternal(st.env.Ctx, st.chain, e) // same key (id, fee): overwrites
	}
}

// ZZRefundPre records the bank state and counters before a refund so that the effect can be checked exactly.
type ZZRefundPre struct {
	st        *zzState
	supply    map[string]*big.Int
	mod, tmp  map[string]*big.Int
	other     types.ChainID
	otherLast uint64
	otherPool int
}

func zzRefundPre(st *zzState) *ZZRefundPre {
	env := st.env
	pre := &ZZRefundPre{st: st, supply: map[string]*big.Int{}, mod: map[string]*big.Int{}, tmp: map[string]*big.Int{}}
	for _, d := range []string{"hub", "usdt"} {
		s := vrt.IntRange("supply."+d, big.NewInt(0), zzPow255)
		env.Bank.SetSupply(d, sdk.NewIntFromBigInt(s))
		pre.supply[d] = s
		pre.mod[d] = env.Bank.Balance(zzModuleAddr, d).BigInt()
		pre.tmp[d] = env.Bank.Balance(types.TempAddress, d).BigInt()
	}
	pre.other = "minter"
	if st.chain == "minter" {
		pre.other = "ethereum"
	}
	pre.otherLast = vrt.Uint64Below("other.lastID", 1<<56)
	zzSetLastID(env, pre.other, pre.otherLast)
	pre.otherPool = len(zzPoolOf(env.K, env.Ctx, pre.other))
	return pre
}

// Check asserts the exact effect of refunding pool entry e (balance of its sender before: senderBal0).
func (pre *ZZRefundPre) Check(tag string, e *types.SendToExternal, senderBal0 map[string]*big.Int) {
	st := pre.st
	env, k, ctx := st.env, st.env.K, st.env.Ctx
	p, b := zzCount(k, ctx, st.chain, e.Id)
	denom := zzDenomOf(k, ctx, st.chain, e.Token.ExternalTokenId)
	dec := zzDecimalsOf(k, ctx, st.chain, e.Token.ExternalTokenId)
	taken := new(big.Int).Add(e.Token.Amount.BigInt(), e.Fee.Amount.BigInt())
	taken.Add(taken, e.ValCommission.Amount.BigInt())
	total := zzConv(dec, 18, taken) // hub units, truncating by less than one unit
	if total.Sign() == 0 {
		// dust: the recorded external amounts convert to zero vouchers
		vrt.Assert(tag+".removed[transfer worth zero vouchers]", p == 0 && b == 0)
		return
	}
	vrt.Assert(tag+".removed", p == 0 && b == 0)
	sender, _ := sdk.AccAddressFromBech32(e.Sender)
	balAfter := env.Bank.Balance(sender, denom).BigInt()
	supAfter := env.Bank.SupplyOf(denom).BigInt()
	modSame := env.Bank.Balance(zzModuleAddr, denom).BigInt().Cmp(pre.mod[denom]) == 0
	tmpSame := env.Bank.Balance(types.TempAddress, denom).BigInt().Cmp(pre.tmp[denom]) == 0
	switch e.RefundChainId {
	case "hub":
		vrt.Assert(tag+".hub.credited-exactly", new(big.Int).Sub(balAfter, senderBal0[denom]).Cmp(total) == 0)
		vrt.Assert(tag+".hub.supply", new(big.Int).Sub(supAfter, pre.supply[denom]).Cmp(total) == 0)
		vrt.Assert(tag+".hub.nothing-stranded", modSame && tmpSame)
	case "":
		// a transfer without origin: whatever is minted must reach an account, not stay in the module account
		vrt.Assert(tag+".no-origin.nothing-stranded[system transfer without refund chain]", modSame && tmpSame && supAfter.Cmp(pre.supply[denom]) == 0)
	default:
		// refunded as a fee-less transfer to the originating address on the originating chain
		vrt.Assert(tag+".origin.supply-unchanged", supAfter.Cmp(pre.supply[denom]) == 0)
		vrt.Assert(tag+".origin.nothing-stranded", modSame && tmpSame)
		op := zzPoolOf(k, ctx, pre.other)
		vrt.Assert(tag+".origin.one-transfer", len(op) == pre.otherPool+1)
		for _, r := range op {
			if r.Id != pre.otherLast+1 {
				continue
			}
			odec := zzDecimalsOf(k, ctx, pre.other, r.Token.ExternalTokenId)
			vrt.Assert(tag+".origin.recipient", r.ExternalRecipient == e.RefundAddress)
			vrt.Assert(tag+".origin.amount", r.Token.Amount.BigInt().Cmp(zzConv(18, odec, total)) == 0 && r.Fee.Amount.IsZero() && r.ValCommission.Amount.IsZero())
		}
	}
}

func ZZ_C12_Cancel() {
	st := zzBuildState(zzC12Opts())
	zzOrigins(st)
	env, k, ctx := st.env, st.env.K, st.env.Ctx
	pre := zzRefundPre(st)
	msgSender := sdk.AccAddress(vrt.Bytes("msg.sender", 20))
	// the ante handler authenticated msg.Sender: it is an ordinary account (module/temp accounts have no key)
	vrt.Assume(!msgSender.Equals(zzModuleAddr) && !msgSender.Equals(types.TempAddress))
	bal0 := map[string]*big.Int{}
	for _, d := range []string{"hub", "usdt"} {
		b := vrt.IntRange("bal."+d, big.NewInt(0), zzPow255)
		env.Bank.SetBalance(msgSender, d, sdk.NewIntFromBigInt(b))
		bal0[d] = b
	}
	msg := &types.MsgCancelSendToExternal{
		ChainId: []string{st.chain.String(), "bsc", "nochain"}[vrt.Choose("msg.chain", 3)],
		Id:      vrt.Uint64Below("msg.id", 1<<56),
		Sender:  msgSender.String(),
	}
	poolBefore := len(zzPoolOf(k, ctx, st.chain))
	srv := msgServer{Keeper: k}
	var err error
	if vrt.Panics(func() { _, err = srv.CancelSendToExternal(sdk.WrapSDKContext(ctx), msg) }) {
		return // rolled back by the SDK
	}
	vrt.Reach("c12.cancel.returned")
	if err != nil {
		return // a failing message is rolled back by the SDK
	}
	vrt.Reach("c12.cancel.ok")
	vrt.Assert("c12.chain", msg.ChainId == st.chain.String())
	var e *types.SendToExternal
	for _, p := range st.pool {
		if p.Id == msg.Id {
			e = p
		}
	}
	vrt.Assert("c12.only-unbatched", e != nil) // ids are unique, so a batched id is not in the pool
	if e == nil {
		return
	}
	vrt.Assert("c12.only-sender", e.Sender == msg.Sender)
	vrt.Assert("c12.others-untouched", len(zzPoolOf(k, ctx, st.chain)) == poolBefore-1)
	pre.Check("c12.cancel", e, bal0)
	// once: an immediate second cancel fails
	var err2 error
	p2 := vrt.Panics(func() { _, err2 = srv.CancelSendToExternal(sdk.WrapSDKContext(ctx), msg) })
	vrt.Assert("c12.once", p2 || err2 != nil)
}
