package keeper

// Harness environment for the mhub2 keeper: the real keeper.Keeper over plain-Go stubs of the
// keepers it expects (types/expected_keepers.go). Everything here is ordinary Go; the symbolic
// executor runs it from SSA, the replay compiles it.

import (
	"bytes"
	"time"

	"github.com/cosmos/cosmos-sdk/codec"
	sdk "github.com/cosmos/cosmos-sdk/types"
	sdkerrors "github.com/cosmos/cosmos-sdk/types/errors"
	bank "github.com/cosmos/cosmos-sdk/x/bank/types"
	paramstypes "github.com/cosmos/cosmos-sdk/x/params/types"
	slashingtypes "github.com/cosmos/cosmos-sdk/x/slashing/types"
	stakingtypes "github.com/cosmos/cosmos-sdk/x/staking/types"
	"github.com/tendermint/tendermint/libs/log"
	tmproto "github.com/tendermint/tendermint/proto/tendermint/types"

	"github.com/MinterTeam/mhub2/module/x/mhub2/types"
	"github.com/MinterTeam/mhub2/module/x/zzverif/vrt"
)

// ---------------- bank ----------------

type zzBal struct {
	Addr  []byte
	Denom string
	Amt   sdk.Int
}

// ZZBank follows x/bank: operations validate the coins, fail without effect on insufficient funds,
// mint/burn adjust supply; module accounts are addresses derived from the module name.
type ZZBank struct {
	ms *vrt.MultiStore // the root store: balances are attached to it and follow CacheContext / commit like store data
}

// zzBankState: the balances and supplies at one store layer.
type zzBankState struct {
	Bals   []zzBal
	Supply []zzBal // Addr unused
}

func (s *zzBankState) CloneAtt() vrt.AttState {
	c := &zzBankState{}
	c.Bals = append(c.Bals, s.Bals...)
	c.Supply = append(c.Supply, s.Supply...)
	return c
}

func zzNewBank(ms *vrt.MultiStore) *ZZBank {
	ms.Att = &zzBankState{}
	return &ZZBank{ms: ms}
}

// State is the committed state (what the harness sets up and inspects).
func (b *ZZBank) State() *zzBankState { return b.ms.AttGet().(*zzBankState) }

// at: the state visible in ctx's store layer, for reading / for writing (copy-on-write inside a cache context)
func (b *ZZBank) rd(ctx sdk.Context) *zzBankState {
	return ctx.MultiStore().(*vrt.MultiStore).AttGet().(*zzBankState)
}
func (b *ZZBank) wr(ctx sdk.Context) *zzBankState {
	return ctx.MultiStore().(*vrt.MultiStore).AttForWrite().(*zzBankState)
}

var zzModuleAddr = sdk.AccAddress{2, 2, 2, 2, 2, 2, 2, 2, 2, 2, 2, 2, 2, 2, 2, 2, 2, 2, 2, 2}

func (b *ZZBank) moduleAddr(name string) sdk.AccAddress {
	if name == types.ModuleName {
		return zzModuleAddr
	}
	panic("module account " + name + " does not exist")
}

func (s *zzBankState) Balance(addr []byte, denom string) sdk.Int {
	for i := range s.Bals {
		if s.Bals[i].Denom == denom && bytes.Equal(s.Bals[i].Addr, addr) {
			return s.Bals[i].Amt
		}
	}
	return sdk.ZeroInt()
}

func (s *zzBankState) SetBalance(addr []byte, denom string, amt sdk.Int) {
	for i := range s.Bals {
		if s.Bals[i].Denom == denom && bytes.Equal(s.Bals[i].Addr, addr) {
			nb := append([]zzBal{}, s.Bals...) // layers share nothing mutable
			nb[i].Amt = amt
			s.Bals = nb
			return
		}
	}
	s.Bals = append(append([]zzBal{}, s.Bals...), zzBal{Addr: addr, Denom: denom, Amt: amt})
}

func (s *zzBankState) SupplyOf(denom string) sdk.Int {
	for i := range s.Supply {
		if s.Supply[i].Denom == denom {
			return s.Supply[i].Amt
		}
	}
	return sdk.ZeroInt()
}

func (s *zzBankState) SetSupply(denom string, amt sdk.Int) {
	for i := range s.Supply {
		if s.Supply[i].Denom == denom {
			ns := append([]zzBal{}, s.Supply...)
			ns[i].Amt = amt
			s.Supply = ns
			return
		}
	}
	s.Supply = append(append([]zzBal{}, s.Supply...), zzBal{Denom: denom, Amt: amt})
}

// harness-facing accessors: the committed state
func (b *ZZBank) Balance(addr []byte, denom string) sdk.Int         { return b.State().Balance(addr, denom) }
func (b *ZZBank) SetBalance(addr []byte, denom string, amt sdk.Int) { b.State().SetBalance(addr, denom, amt) }
func (b *ZZBank) SupplyOf(denom string) sdk.Int                     { return b.State().SupplyOf(denom) }
func (b *ZZBank) SetSupply(denom string, amt sdk.Int)               { b.State().SetSupply(denom, amt) }

func (s *zzBankState) sub(addr []byte, amt sdk.Coins) error {
	if !amt.IsValid() {
		return sdkerrors.Wrap(sdkerrors.ErrInvalidCoins, "invalid coins")
	}
	for _, c := range amt {
		if s.Balance(addr, c.Denom).LT(c.Amount) {
			return sdkerrors.Wrap(sdkerrors.ErrInsufficientFunds, "insufficient funds")
		}
	}
	for _, c := range amt {
		s.SetBalance(addr, c.Denom, s.Balance(addr, c.Denom).Sub(c.Amount))
	}
	return nil
}

func (s *zzBankState) add(addr []byte, amt sdk.Coins) error {
	if !amt.IsValid() {
		return sdkerrors.Wrap(sdkerrors.ErrInvalidCoins, "invalid coins")
	}
	for _, c := range amt {
		s.SetBalance(addr, c.Denom, s.Balance(addr, c.Denom).Add(c.Amount))
	}
	return nil
}

func (b *ZZBank) GetSupply(ctx sdk.Context, denom string) sdk.Coin {
	return sdk.Coin{Denom: denom, Amount: b.rd(ctx).SupplyOf(denom)}
}

func (b *ZZBank) SendCoinsFromModuleToAccount(ctx sdk.Context, senderModule string, recipientAddr sdk.AccAddress, amt sdk.Coins) error {
	st := b.wr(ctx)
	from := b.moduleAddr(senderModule)
	if err := st.sub(from, amt); err != nil {
		return err
	}
	return st.add(recipientAddr, amt)
}

func (b *ZZBank) SendCoinsFromModuleToModule(ctx sdk.Context, senderModule, recipientModule string, amt sdk.Coins) error {
	st := b.wr(ctx)
	from, to := b.moduleAddr(senderModule), b.moduleAddr(recipientModule)
	if err := st.sub(from, amt); err != nil {
		return err
	}
	return st.add(to, amt)
}

func (b *ZZBank) SendCoinsFromAccountToModule(ctx sdk.Context, senderAddr sdk.AccAddress, recipientModule string, amt sdk.Coins) error {
	st := b.wr(ctx)
	to := b.moduleAddr(recipientModule)
	if err := st.sub(senderAddr, amt); err != nil {
		return err
	}
	return st.add(to, amt)
}

func (b *ZZBank) MintCoins(ctx sdk.Context, name string, amt sdk.Coins) error {
	st := b.wr(ctx)
	acc := b.moduleAddr(name)
	if err := st.add(acc, amt); err != nil {
		return err
	}
	for _, c := range amt {
		st.SetSupply(c.Denom, st.SupplyOf(c.Denom).Add(c.Amount))
	}
	return nil
}

func (b *ZZBank) BurnCoins(ctx sdk.Context, name string, amt sdk.Coins) error {
	st := b.wr(ctx)
	acc := b.moduleAddr(name)
	if err := st.sub(acc, amt); err != nil {
		return err
	}
	for _, c := range amt {
		st.SetSupply(c.Denom, st.SupplyOf(c.Denom).Sub(c.Amount))
	}
	return nil
}

func (b *ZZBank) GetAllBalances(ctx sdk.Context, addr sdk.AccAddress) sdk.Coins {
	st := b.rd(ctx)
	var out sdk.Coins
	for i := range st.Bals {
		if bytes.Equal(st.Bals[i].Addr, addr) && st.Bals[i].Amt.IsPositive() {
			out = append(out, sdk.Coin{Denom: st.Bals[i].Denom, Amount: st.Bals[i].Amt})
		}
	}
	return out
}

func (b *ZZBank) GetDenomMetaData(ctx sdk.Context, denom string) (bank.Metadata, bool) {
	return bank.Metadata{}, false
}

// ---------------- staking ----------------

type ZZVal struct {
	Oper   sdk.ValAddress
	Power  int64
	Bonded bool
	Jailed bool
	// OffIndex: jailed (or fallen below the minimum self-delegation) earlier in this block. x/staking removes such a
	// validator from the power index at once (GetBondedValidatorsByPower no longer returns it) while its status stays
	// bonded and its last-power record stays until the staking end blocker.
	OffIndex bool
}

type ZZStaking struct {
	Vals []ZZVal
}

func (s *ZZStaking) validator(v ZZVal) stakingtypes.Validator {
	st := stakingtypes.Unbonded
	if v.Bonded {
		st = stakingtypes.Bonded
	}
	return stakingtypes.Validator{OperatorAddress: v.Oper.String(), Status: st, Jailed: v.Jailed || v.OffIndex, Tokens: sdk.NewInt(v.Power)}
}

func (s *ZZStaking) GetBondedValidatorsByPower(ctx sdk.Context) []stakingtypes.Validator {
	var out []stakingtypes.Validator
	for _, v := range s.Vals {
		if v.Bonded && !v.OffIndex {
			out = append(out, s.validator(v))
		}
	}
	return out
}

func (s *ZZStaking) GetLastValidatorPower(ctx sdk.Context, operator sdk.ValAddress) int64 {
	for _, v := range s.Vals {
		if v.Bonded && bytes.Equal(v.Oper, operator) {
			return v.Power
		}
	}
	return 0
}

func (s *ZZStaking) GetLastTotalPower(ctx sdk.Context) (power sdk.Int) {
	total := sdk.ZeroInt()
	for _, v := range s.Vals {
		if v.Bonded {
			total = total.Add(sdk.NewInt(v.Power))
		}
	}
	return total
}

func (s *ZZStaking) IterateValidators(ctx sdk.Context, cb func(index int64, validator stakingtypes.ValidatorI) (stop bool)) {
	for i, v := range s.Vals {
		if cb(int64(i), s.validator(v)) {
			break
		}
	}
}

func (s *ZZStaking) IterateBondedValidatorsByPower(ctx sdk.Context, cb func(index int64, validator stakingtypes.ValidatorI) (stop bool)) {
	i := int64(0)
	for _, v := range s.Vals {
		if !v.Bonded || v.OffIndex {
			continue
		}
		if cb(i, s.validator(v)) {
			break
		}
		i++
	}
}

// IterateLastValidators walks the last-power records (the validator set of the previous end blocker).
func (s *ZZStaking) IterateLastValidators(ctx sdk.Context, cb func(index int64, validator stakingtypes.ValidatorI) (stop bool)) {
	i := int64(0)
	for _, v := range s.Vals {
		if !v.Bonded {
			continue
		}
		if cb(i, s.validator(v)) {
			break
		}
		i++
	}
}

func (s *ZZStaking) ValidatorQueueIterator(ctx sdk.Context, endTime time.Time, endHeight int64) sdk.Iterator {
	return (&vrt.Store{}).Iterator(nil, nil)
}

func (s *ZZStaking) GetParams(ctx sdk.Context) stakingtypes.Params { return stakingtypes.Params{} }

func (s *ZZStaking) GetValidator(ctx sdk.Context, addr sdk.ValAddress) (stakingtypes.Validator, bool) {
	for _, v := range s.Vals {
		if bytes.Equal(v.Oper, addr) {
			return s.validator(v), true
		}
	}
	return stakingtypes.Validator{}, false
}

func (s *ZZStaking) Validator(ctx sdk.Context, addr sdk.ValAddress) stakingtypes.ValidatorI {
	v, ok := s.GetValidator(ctx, addr)
	if !ok {
		return nil
	}
	return v
}

func (s *ZZStaking) ValidatorByConsAddr(sdk.Context, sdk.ConsAddress) stakingtypes.ValidatorI {
	return nil
}
func (s *ZZStaking) Slash(sdk.Context, sdk.ConsAddress, int64, int64, sdk.Dec) {}
func (s *ZZStaking) Jail(sdk.Context, sdk.ConsAddress)                         {}

// ---------------- account / slashing / oracle ----------------

type ZZAccount struct {
	Addrs [][]byte
	Seqs  []uint64
}

func (a *ZZAccount) GetSequence(ctx sdk.Context, addr sdk.AccAddress) (uint64, error) {
	for i := range a.Addrs {
		if bytes.Equal(a.Addrs[i], addr) {
			return a.Seqs[i], nil
		}
	}
	return 0, sdkerrors.Wrap(sdkerrors.ErrUnknownAddress, "account does not exist")
}
func (a *ZZAccount) GetModuleAddress(name string) sdk.AccAddress { return zzModuleAddr }

type ZZSlashing struct{}

func (ZZSlashing) GetValidatorSigningInfo(ctx sdk.Context, address sdk.ConsAddress) (slashingtypes.ValidatorSigningInfo, bool) {
	return slashingtypes.ValidatorSigningInfo{}, false
}

type zzPrice struct {
	Denom string
	Price sdk.Dec
}
type zzHolder struct {
	Addr  string
	Value sdk.Int
}

type ZZOracle struct {
	Prices  []zzPrice
	Holders []zzHolder
}

func (o *ZZOracle) GetTokenPrice(ctx sdk.Context, denom string) (sdk.Dec, error) {
	for _, p := range o.Prices {
		if p.Denom == denom {
			return p.Price, nil
		}
	}
	return sdk.Dec{}, sdkerrors.Wrap(sdkerrors.ErrNotFound, "price not found")
}

func (o *ZZOracle) MustGetTokenPrice(ctx sdk.Context, denom string) sdk.Dec {
	p, err := o.GetTokenPrice(ctx, denom)
	if err != nil {
		panic(err)
	}
	return p
}

func (o *ZZOracle) GetHolderValue(ctx sdk.Context, address string) sdk.Int {
	for _, h := range o.Holders {
		if h.Addr == address {
			return h.Value
		}
	}
	return sdk.NewInt(0)
}

// ---------------- environment ----------------

type ZZEnv struct {
	MS      *vrt.MultiStore
	Key     *sdk.KVStoreKey
	Ctx     sdk.Context
	K       Keeper
	Bank    *ZZBank
	Staking *ZZStaking
	Account *ZZAccount
	Oracle  *ZZOracle
}

// zzCodec and zzSubspace are the two environment objects that are not plain Go (protobuf registry,
// amino/reflection): natively they are the real ones, the engine substitutes its codec/params models.
func zzCodec() codec.Codec { return MakeTestMarshaler() }

func zzSubspace(cdc codec.Codec, key, tkey sdk.StoreKey) paramstypes.Subspace {
	return paramstypes.NewSubspace(cdc, MakeTestCodec(), key, tkey, types.ModuleName).WithKeyTable(types.ParamKeyTable())
}

var (
	zzStoreKey  = sdk.NewKVStoreKey(types.StoreKey)
	zzParamKey  = sdk.NewKVStoreKey(paramstypes.StoreKey)
	zzParamTKey = sdk.NewTransientStoreKey(paramstypes.TStoreKey)
)

func ZZNewEnv(height int64, unixTime int64) *ZZEnv {
	ms := vrt.NewMultiStore()
	cdc := zzCodec()
	env := &ZZEnv{MS: ms, Key: zzStoreKey, Bank: zzNewBank(ms), Staking: &ZZStaking{}, Account: &ZZAccount{}, Oracle: &ZZOracle{}}
	env.Ctx = sdk.NewContext(ms, tmproto.Header{Height: height, Time: time.Unix(unixTime, 0)}, false, log.NewNopLogger())
	k := Keeper{
		storeKey:       zzStoreKey,
		paramSpace:     zzSubspace(cdc, zzParamKey, zzParamTKey),
		cdc:            cdc,
		accountKeeper:  env.Account,
		bankKeeper:     env.Bank,
		SlashingKeeper: ZZSlashing{},
		oracleKeeper:   env.Oracle,
		PowerReduction: sdk.DefaultPowerReduction,
	}
	k = k.SetStakingKeeper(env.Staking)
	env.K = k
	return env
}

func (e *ZZEnv) Store() *vrt.Store { return e.MS.KV(e.Key) }

func zzDefaultParams() types.Params {
	p := types.DefaultParams()
	p.Chains = []string{"ethereum", "minter", "bsc", "hub"}
	return *p
}
