package keeper

import (
	"math/big"

	sdk "github.com/cosmos/cosmos-sdk/types"

	"github.com/MinterTeam/mhub2/module/x/mhub2/types"
	"github.com/MinterTeam/mhub2/module/x/zzverif/vrt"
)

var zzPow255 = new(big.Int).Lsh(big.NewInt(1), 255)

func zzTokenInfos(idA string, decimals uint64) *types.TokenInfos {
	return &types.TokenInfos{TokenInfos: []*types.TokenInfo{
		{Id: 1, Denom: "hub", ChainId: "minter", ExternalTokenId: idA, ExternalDecimals: decimals, Commission: sdk.NewDecWithPrec(1, 2)},
		{Id: 2, Denom: "hub", ChainId: "ethereum", ExternalTokenId: "0x8C2B6949590bEBE6BC1124B670e58DA85b081b2E", ExternalDecimals: 18, Commission: sdk.NewDecWithPrec(1, 2)},
	}}
}

func zzSte(i int, chain types.ChainID, tokenId uint64, extId string) *types.SendToExternal {
	n := string(rune('a' + i))
	fee := sdk.NewIntFromBigInt(vrt.IntRange("fee"+n, big.NewInt(0), zzPow255))
	amt := sdk.NewIntFromBigInt(vrt.IntRange("amt"+n, big.NewInt(0), zzPow255))
	return &types.SendToExternal{
		Id:                vrt.Uint64Below("id"+n, 1<<56),
		Sender:            sdk.AccAddress(vrt.Bytes("sender"+n, 20)).String(),
		ExternalRecipient: "0x0000000000000000000000000000000000000001",
		ChainId:           chain.String(),
		Token:             types.ExternalToken{TokenId: tokenId, ExternalTokenId: extId, Amount: amt},
		Fee:               types.ExternalToken{TokenId: tokenId, ExternalTokenId: extId, Amount: fee},
		ValCommission:     types.ExternalToken{TokenId: tokenId, ExternalTokenId: extId, Amount: sdk.ZeroInt()},
		TxHash:            "h" + n,
		CreatedAt:         vrt.Uint64Below("created"+n, 1<<40),
		RefundAddress:     "",
		RefundChainId:     "hub",
	}
}

// ZZ_Smoke_Batch: BuildBatchTx over a symbolic pool.
func ZZ_Smoke_Batch() {
	env := ZZNewEnv(10, 1000)
	k, ctx := env.K, env.Ctx
	k.setParams(ctx, zzDefaultParams())
	k.SetTokenInfos(ctx, zzTokenInfos("1", 18))
	chain := types.ChainID("minter")
	n := vrt.Len("pool", 0, 2)
	for i := 0; i < n; i++ {
		k.setUnbatchedSendToExternal(ctx, chain, zzSte(i, chain, 1, "1"))
	}
	nonce0 := k.getLastOutgoingBatchNonce(ctx, chain)
	b := k.BuildBatchTx(ctx, chain, "1", 1)
	vrt.Reach("smoke.batch")
	vrt.Assert("smoke.batch.cap", len(b.Transactions) <= 1)
	vrt.Assert("smoke.batch.nonce", b.BatchNonce == nonce0+1)
	vrt.Assert("smoke.batch.nonempty", len(b.Transactions) >= 1)
	if n == 2 && len(b.Transactions) == 1 {
		rest := k.getUnbatchedSendToExternals(ctx, chain)
		vrt.Assert("smoke.batch.rest", len(rest) == 1)
		if len(rest) == 1 {
			vrt.Assert("smoke.batch.maxfee", b.Transactions[0].Fee.Amount.GTE(rest[0].Fee.Amount))
		}
	}
}
