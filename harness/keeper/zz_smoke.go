package keeper

import (
	"bytes"
	"math/big"

	sdk "github.com/cosmos/cosmos-sdk/types"
	"github.com/ethereum/go-ethereum/common"

	"github.com/MinterTeam/mhub2/module/x/mhub2/types"
	"github.com/MinterTeam/mhub2/module/x/zzverif/vrt"
)

var zzPow255 = new(big.Int).Lsh(big.NewInt(1), 255)

func zzTokenInfos(idA string, decimals uint64) *types.TokenInfos {
	return &types.TokenInfos{TokenInfos: []*types.TokenInfo{
		{Id: 1, Denom: "hub", ChainId: "minter", ExternalTokenId: idA, ExternalDecimals: decimals, Commission: sdk.NewDecWithPrec(1, 2)},
		{Id: 2, Denom: "hub", ChainId: "ethereum", ExternalTokenId: "0x8C2B6949590bEBE6BC1124B670e58DA85b081b2E", ExternalDecimals: 18, Commission: sdk.NewDecWithPrec(1, 2)},
	}}
}

func zzSte(i int, chain types.ChainID, tokenId uint64, extId string) *types.SendToExternal {
	n := string(rune('a' + i))
	fee := sdk.NewIntFromBigInt(vrt.IntRange("fee"+n, big.NewInt(0), zzPow255))
	amt := sdk.NewIntFromBigInt(vrt.IntRange("amt"+n, big.NewInt(0), zzPow255))
	return &types.SendToExternal{
		Id:                vrt.Uint64Below("id"+n, 1<<56),
		Sender:            sdk.AccAddress(vrt.Bytes("sender"+n, 20)).String(),
		ExternalRecipient: "0x0000000000000000000000000000000000000001",
		ChainId:           chain.String(),
		Token:             types.ExternalToken{TokenId: tokenId, ExternalTokenId: extId, Amount: amt},
		Fee:               types.ExternalToken{TokenId: tokenId, ExternalTokenId: extId, Amount: fee},
		ValCommission:     types.ExternalToken{TokenId: tokenId, ExternalTokenId: extId, Amount: sdk.ZeroInt()},
		TxHash:            "h" + n,
		CreatedAt:         vrt.Uint64Below("created"+n, 1<<40),
		RefundAddress:     "",
		RefundChainId:     "hub",
	}
}

// ZZ_Smoke_Batch: BuildBatchTx over a symbolic pool.
func ZZ_Smoke_Batch() {
	env := ZZNewEnv(10, 1000)
	k, ctx := env.K, env.Ctx
	k.setParams(ctx, zzDefaultParams())
	k.SetTokenInfos(ctx, zzTokenInfos("1", 18))
	chain := types.ChainID("minter")
	n := vrt.Len("pool", 0, 2)
	for i := 0; i < n; i++ {
		k.setUnbatchedSendToExternal(ctx, chain, zzSte(i, chain, 1, "1"))
	}
	nonce0 := k.getLastOutgoingBatchNonce(ctx, chain)
	b := k.BuildBatchTx(ctx, chain, "1", 1)
	vrt.Reach("smoke.batch")
	vrt.Assert("smoke.batch.cap", len(b.Transactions) <= 1)
	vrt.Assert("smoke.batch.nonce", b.BatchNonce == nonce0+1)
	vrt.Assert("smoke.batch.nonempty", len(b.Transactions) >= 1)
	if n == 2 && len(b.Transactions) == 1 {
		rest := k.getUnbatchedSendToExternals(ctx, chain)
		vrt.Assert("smoke.batch.rest", len(rest) == 1)
		if len(rest) == 1 {
			vrt.Assert("smoke.batch.maxfee", b.Transactions[0].Fee.Amount.GTE(rest[0].Fee.Amount))
		}
	}
}

// ZZ_Smoke_HexOrder: the text order of two checksummed digit-only addresses is the byte order (engine self-test).
func ZZ_Smoke_HexOrder() {
	a, b := vrt.Bytes("a", 20), vrt.Bytes("b", 20)
	for _, x := range a {
		vrt.Assume(x>>4 <= 9 && x&15 <= 9)
	}
	for _, x := range b {
		vrt.Assume(x>>4 <= 9 && x&15 <= 9)
	}
	ha, hb := common.BytesToAddress(a).Hex(), common.BytesToAddress(b).Hex()
	vrt.Reach("smoke.hexorder")
	vrt.Assert("smoke.hexorder.text-is-byte-order", (ha < hb) == (bytes.Compare(a, b) < 0))
	c1 := bytes.Compare([]byte(ha), []byte(hb))
	vrt.Assert("smoke.hexorder.compare-vs-text", (c1 == -1) == (ha < hb))
	vrt.Assert("smoke.hexorder.compare-vs-bytes", (c1 < 0) == (bytes.Compare(a, b) < 0))
	vrt.Assert("smoke.hexorder.less-than", types.EthereumAddrLessThan(ha, hb) == (bytes.Compare(a, b) < 0))
}

func ZZ_Smoke_BytesCompare() {
	a, b := vrt.Bytes("a", 2), vrt.Bytes("b", 2)
	want := a[0] < b[0] || (a[0] == b[0] && a[1] < b[1])
	vrt.Reach("smoke.bytescompare")
	vrt.Assert("smoke.bytescompare.minus-one", (bytes.Compare(a, b) == -1) == want)
	vrt.Assert("smoke.bytescompare.negative", (bytes.Compare(a, b) < 0) == want)
	sa, sb := string(a), string(b)
	vrt.Assert("smoke.bytescompare.string-roundtrip", (bytes.Compare([]byte(sa)[:], []byte(sb)[:]) == -1) == want)
}

func ZZ_Smoke_HexBytes() {
	a := vrt.Bytes("a", 20)
	for _, x := range a {
		vrt.Assume(x>>4 <= 9 && x&15 <= 9)
	}
	ha := common.BytesToAddress(a).Hex()
	bs := []byte(ha)
	vrt.Reach("smoke.hexbytes")
	vrt.Assert("smoke.hexbytes.len", len(bs) == 42)
	vrt.Assert("smoke.hexbytes.prefix", bs[0] == '0' && bs[1] == 'x')
	vrt.Assert("smoke.hexbytes.first", bs[2] == '0'+a[0]>>4 && bs[3] == '0'+a[0]&15)
	vrt.Assert("smoke.hexbytes.last", bs[40] == '0'+a[19]>>4 && bs[41] == '0'+a[19]&15)
}
