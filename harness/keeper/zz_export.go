package keeper

// Exported doors for the harnesses that live in package mhub2 (abci.go is there).

import (
	sdk "github.com/cosmos/cosmos-sdk/types"

	"github.com/MinterTeam/mhub2/module/x/mhub2/types"
)

type ZZState = zzState

type ZZStateOpts struct {
	MaxPool, MaxBatches, MaxPerBatch        int
	ZeroFees, ConcreteIds, SymDecimals bool
	Chains                                  []types.ChainID
}

func ZZBuildState(o ZZStateOpts) *ZZState {
	return zzBuildState(zzStateOpts{maxPool: o.MaxPool, maxBatches: o.MaxBatches, maxPerBatch: o.MaxPerBatch,
		zeroFees: o.ZeroFees, concreteIds: o.ConcreteIds, symDecimals: o.SymDecimals, chains: o.Chains})
}

func (st *ZZState) Env() *ZZEnv                    { return st.env }
func (st *ZZState) Chain() types.ChainID           { return st.chain }
func (st *ZZState) Pool() []*types.SendToExternal  { return st.pool }
func (st *ZZState) Batches() []*types.BatchTx      { return st.batches }
func (st *ZZState) Ids() (string, string)          { return st.idA, st.idB }
func (st *ZZState) LastNonce() uint64              { return st.lastNon }
func ZZOrigins(st *ZZState)                        { zzOrigins(st) }
func ZZRefundPreOf(st *ZZState) *ZZRefundPre       { return zzRefundPre(st) }
func ZZHasBatch(bs []*types.BatchTx, tok string, nonce uint64) bool { return zzHasBatch(bs, tok, nonce) }
func ZZPoolOf(k Keeper, ctx sdk.Context, chain types.ChainID) []*types.SendToExternal {
	return zzPoolOf(k, ctx, chain)
}
func ZZBatchesOf(k Keeper, ctx sdk.Context, chain types.ChainID) []*types.BatchTx {
	return zzBatchesOf(k, ctx, chain)
}
func ZZCount(k Keeper, ctx sdk.Context, chain types.ChainID, id uint64) (int, int) {
	return zzCount(k, ctx, chain, id)
}
func ZZDefaultParams() types.Params { return zzDefaultParams() }
func (k Keeper) ZZSetParams(ctx sdk.Context, p types.Params) { k.setParams(ctx, p) }
