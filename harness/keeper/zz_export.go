package keeper

// Exported doors for the harnesses that live in package mhub2 (abci.go is there).

import (
	"bytes"
	"github.com/ethereum/go-ethereum/common"
	"math/big"

	sdk "github.com/cosmos/cosmos-sdk/types"

	"github.com/MinterTeam/mhub2/module/x/mhub2/types"
)

type ZZState = zzState

type ZZStateOpts struct {
	MaxPool, MaxBatches, MaxPerBatch   int
	ZeroFees, ConcreteIds, SymDecimals, DecChoice bool
	Chains                             []types.ChainID
}

func ZZBuildState(o ZZStateOpts) *ZZState {
	return zzBuildState(zzStateOpts{maxPool: o.MaxPool, maxBatches: o.MaxBatches, maxPerBatch: o.MaxPerBatch,
		zeroFees: o.ZeroFees, concreteIds: o.ConcreteIds, symDecimals: o.SymDecimals, decChoice: o.DecChoice, chains: o.Chains})
}

func (st *ZZState) Env() *ZZEnv                   { return st.env }
func (st *ZZState) Chain() types.ChainID          { return st.chain }
func (st *ZZState) Pool() []*types.SendToExternal { return st.pool }
func (st *ZZState) Batches() []*types.BatchTx     { return st.batches }
func (st *ZZState) Ids() (string, string)         { return st.idA, st.idB }
func (st *ZZState) LastNonce() uint64             { return st.lastNon }
func ZZOrigins(st *ZZState)                       { zzOrigins(st) }
func ZZRefundPreOf(st *ZZState) *ZZRefundPre      { return zzRefundPre(st) }
func ZZHasBatch(bs []*types.BatchTx, tok string, nonce uint64) bool {
	return zzHasBatch(bs, tok, nonce)
}
func ZZPoolOf(k Keeper, ctx sdk.Context, chain types.ChainID) []*types.SendToExternal {
	return zzPoolOf(k, ctx, chain)
}
func ZZBatchesOf(k Keeper, ctx sdk.Context, chain types.ChainID) []*types.BatchTx {
	return zzBatchesOf(k, ctx, chain)
}
func ZZCount(k Keeper, ctx sdk.Context, chain types.ChainID, id uint64) (int, int) {
	return zzCount(k, ctx, chain, id)
}
func ZZDefaultParams() types.Params                          { return zzDefaultParams() }
func (k Keeper) ZZSetParams(ctx sdk.Context, p types.Params) { k.setParams(ctx, p) }

// ---- attestation state (C02/C03) ----

func (k Keeper) ZZSetVoteRecord(ctx sdk.Context, chain types.ChainID, ev types.ExternalEvent, votes []string, accepted bool) {
	any, err := types.PackEvent(ev)
	if err != nil {
		panic(err)
	}
	k.setExternalEventVoteRecord(ctx, chain, ev.GetEventNonce(), ev.Hash(), &types.ExternalEventVoteRecord{Event: any, Votes: votes, Accepted: accepted})
}
func (k Keeper) ZZSetLastObservedEventNonce(ctx sdk.Context, chain types.ChainID, n uint64) {
	k.setLastObservedEventNonce(ctx, chain, n)
}
func (k Keeper) ZZSetLastEventNonceByValidator(ctx sdk.Context, chain types.ChainID, v sdk.ValAddress, n uint64) {
	k.setLastEventNonceByValidator(ctx, chain, v, n)
}
func (k Keeper) ZZGetLastEventNonceByValidator(ctx sdk.Context, chain types.ChainID, v sdk.ValAddress) uint64 {
	return k.getLastEventNonceByValidator(ctx, chain, v)
}
func (k Keeper) ZZHasStoredEventNonce(ctx sdk.Context, chain types.ChainID, v sdk.ValAddress) bool {
	return ctx.KVStore(k.storeKey).Has(types.MakeLastEventNonceByValidatorKey(chain, v))
}

// ZZHubValue: vouchers (hub units) a pool entry is worth: conv(amount+fee+commission), truncating.
func ZZHubValue(k Keeper, ctx sdk.Context, chain types.ChainID, e *types.SendToExternal) *big.Int {
	taken := new(big.Int).Add(e.Token.Amount.BigInt(), e.Fee.Amount.BigInt())
	taken.Add(taken, e.ValCommission.Amount.BigInt())
	return zzConv(zzDecimalsOf(k, ctx, chain, e.Token.ExternalTokenId), 18, taken)
}

func (k Keeper) ZZSetValidatorExternalAddress(ctx sdk.Context, chain types.ChainID, v sdk.ValAddress, a common.Address) {
	k.setValidatorExternalAddress(ctx, chain, v, a)
}
func (o *ZZOracle) ZZSetPrice(denom string, p sdk.Dec) {
	o.Prices = append(o.Prices, zzPrice{denom, p})
}

// ZZSameState: two environments hold byte-identical module state, bank state and emitted events.
func ZZSameState(a, b *ZZEnv) bool {
	sa, sb := a.Store(), b.Store()
	if len(sa.E) != len(sb.E) {
		return false
	}
	for _, e := range sa.E {
		v := sb.Get(e.K)
		if v == nil || !bytes.Equal(v, e.V) {
			return false
		}
	}
	ea, eb := a.Ctx.EventManager().ABCIEvents(), b.Ctx.EventManager().ABCIEvents()
	if len(ea) != len(eb) {
		return false
	}
	for i := range ea {
		if ea[i].Type != eb[i].Type || len(ea[i].Attributes) != len(eb[i].Attributes) {
			return false
		}
		for j := range ea[i].Attributes {
			if !bytes.Equal(ea[i].Attributes[j].Key, eb[i].Attributes[j].Key) || !bytes.Equal(ea[i].Attributes[j].Value, eb[i].Attributes[j].Value) {
				return false
			}
		}
	}
	if len(a.Bank.State().Bals) != len(b.Bank.State().Bals) || len(a.Bank.State().Supply) != len(b.Bank.State().Supply) {
		return false
	}
	for _, x := range a.Bank.State().Bals {
		if !b.Bank.Balance(x.Addr, x.Denom).Equal(x.Amt) {
			return false
		}
	}
	for _, x := range a.Bank.State().Supply {
		if !b.Bank.State().SupplyOf(x.Denom).Equal(x.Amt) {
			return false
		}
	}
	return true
}

func (k Keeper) ZZOutgoingSequence(ctx sdk.Context, chain types.ChainID) uint64 {
	return k.getOutgoingSequence(ctx, chain)
}
func (k Keeper) ZZSetOutgoingSequence(ctx sdk.Context, chain types.ChainID, v uint64) {
	k.setOutgoingSequence(ctx, chain, v)
}
func (k Keeper) ZZLastBatchNonce(ctx sdk.Context, chain types.ChainID) uint64 {
	return k.getLastOutgoingBatchNonce(ctx, chain)
}

func ZZModuleAddr() sdk.AccAddress { return zzModuleAddr }

// ZZRedatePool rewrites the creation time of every pool entry (native replays of clock-dependent behaviour: the real
// clock cannot be set, so the entries are dated relative to it).
func ZZRedatePool(st *ZZState, createdAt uint64) {
	for _, e := range st.pool {
		e.CreatedAt = createdAt
		st.env.K.setUnbatchedSendToExternal(st.env.Ctx, st.chain, e) // same key (id, fee): overwrites
	}
}
