package keeper

// C04 — an outgoing transfer is in exactly one place. One operation from an arbitrary valid state
// (pool + pending batches, ids unique); afterwards every id is counted through the real iterators.

import (
	"math/big"

	sdk "github.com/cosmos/cosmos-sdk/types"

	"github.com/MinterTeam/mhub2/module/x/mhub2/types"
	"github.com/MinterTeam/mhub2/module/x/zzverif/vrt"
)

func zzC04Opts() zzStateOpts {
	o := zzStateOpts{maxPool: 2, maxBatches: 1, maxPerBatch: 2, zeroFees: true, concreteIds: true}
	if vrt.Thorough() {
		o = zzStateOpts{maxPool: 2, maxBatches: 2, maxPerBatch: 1, zeroFees: true, concreteIds: true}
	}
	return o
}

// every id of the pre-state occurs exactly `want` times afterwards (pool+batches), except the listed ones
func zzAssertPlaces(tag string, st *zzState, gone map[uint64]bool) {
	k, ctx := st.env.K, st.env.Ctx
	var all []*types.SendToExternal
	all = append(all, st.pool...)
	for _, b := range st.batches {
		all = append(all, b.Transactions...)
	}
	for _, x := range all {
		p, b := zzCount(k, ctx, st.chain, x.Id)
		if gone[x.Id] {
			vrt.Assert("c04."+tag+".removed", p+b == 0)
		} else {
			vrt.Assert("c04."+tag+".exactly-once", p+b == 1)
		}
	}
}

func ZZ_C04_Step() {
	st := zzBuildState(zzC04Opts())
	k, ctx, chain := st.env.K, st.env.Ctx, st.chain
	before := zzTotalEntries(k, ctx, chain)
	switch vrt.Choose("op", 5) {
	case 0: // a new transfer is accepted
		sender := sdk.AccAddress(vrt.Bytes("newsender", 20))
		amt := sdk.NewIntFromBigInt(vrt.IntRange("newamt", big.NewInt(1), zzPow255))
		st.env.Bank.SetBalance(sender, "hub", amt)
		st.env.Bank.SetSupply("hub", amt)
		var id uint64
		var err error
		if vrt.Panics(func() {
			id, err = k.createSendToExternal(ctx, chain, sender, "0x0000000000000000000000000000000000000009",
				sdk.NewCoin("hub", amt), sdk.NewCoin("hub", sdk.ZeroInt()), sdk.NewCoin("hub", sdk.ZeroInt()), "hnew", "hub", sender.String())
		}) {
			return // a panicking transaction is rolled back by the SDK
		}
		vrt.Reach("c04.create")
		if err == nil {
			vrt.Assert("c04.create.fresh-id", id == st.lastID+1)
			p, b := zzCount(k, ctx, chain, id)
			vrt.Assert("c04.create.in-pool-once", p == 1 && b == 0)
			vrt.Assert("c04.create.total", zzTotalEntries(k, ctx, chain) == before+1)
		} else {
			vrt.Assert("c04.create.fail-total", zzTotalEntries(k, ctx, chain) == before)
		}
		zzAssertPlaces("create", st, nil)
	case 1: // batching moves transfers, never copies or drops them
		tok := st.idA
		if vrt.Choose("optok", 2) == 1 {
			tok = st.idB
		}
		capN := 1 + vrt.Choose("cap", 2)
		if vrt.Panics(func() { k.BuildBatchTx(ctx, chain, tok, capN) }) {
			return
		}
		vrt.Reach("c04.build")
		zzAssertPlaces("build", st, nil)
		vrt.Assert("c04.build.total", zzTotalEntries(k, ctx, chain) == before)
	case 2: // batch cancelled (timeout / superseded): transfers return to the pool
		if len(st.batches) == 0 || chain == "minter" {
			return
		}
		b := st.batches[vrt.Choose("which", len(st.batches))]
		if vrt.Panics(func() { k.CancelBatchTx(ctx, chain, b.ExternalTokenId, b.BatchNonce) }) {
			return
		}
		vrt.Reach("c04.cancelbatch")
		zzAssertPlaces("cancelbatch", st, nil)
		for _, t := range b.Transactions {
			p, bb := zzCount(k, ctx, chain, t.Id)
			vrt.Assert("c04.cancelbatch.back-in-pool", p == 1 && bb == 0)
		}
		vrt.Assert("c04.cancelbatch.total", zzTotalEntries(k, ctx, chain) == before)
	case 3: // batch observed executed: exactly its transfers leave
		if len(st.batches) == 0 {
			return
		}
		b := st.batches[vrt.Choose("which", len(st.batches))]
		if vrt.Panics(func() {
			k.batchTxExecuted(ctx, chain, b.ExternalTokenId, b.BatchNonce, "exthash", sdk.ZeroInt(), "payer")
		}) {
			return
		}
		vrt.Reach("c04.executed")
		gone := map[uint64]bool{}
		for _, t := range b.Transactions {
			gone[t.Id] = true
		}
		zzAssertPlaces("executed", st, gone)
		vrt.Assert("c04.executed.total", zzTotalEntries(k, ctx, chain) == before-len(b.Transactions))
	case 4: // refund of an unbatched transfer
		if len(st.pool) == 0 {
			return
		}
		e := st.pool[vrt.Choose("which", len(st.pool))]
		// where the transfer came from decides where the refund goes: a hub account, another external chain (the refund
		// is a new transfer on that chain), or nowhere (system transfer)
		switch vrt.Choose("origin", 3) {
		case 1:
			other := "minter"
			if chain == "minter" {
				other = "ethereum"
			}
			e.RefundChainId, e.RefundAddress, e.Sender = other, "0x00000000000000000000000000000000000000aa", types.TempAddress.String()
			k.setUnbatchedSendToExternal(ctx, chain, e) // same key (id, fee): overwrites
		case 2:
			e.RefundChainId, e.RefundAddress, e.Sender = "", "", types.TempAddress.String()
			k.setUnbatchedSendToExternal(ctx, chain, e)
		}
		var err error
		if vrt.Panics(func() { err = k.cancelSendToExternal(ctx, chain, e.Id, e.Sender) }) {
			return
		}
		vrt.Reach("c04.refund")
		if err == nil {
			zzAssertPlaces("refund", st, map[uint64]bool{e.Id: true})
			vrt.Assert("c04.refund.status", k.GetTxStatus(ctx, e.TxHash).Status == types.TX_STATUS_REFUNDED)
			// refunded is final
			k.SetTxStatus(ctx, e.TxHash, types.TX_STATUS_BATCH_CREATED, "")
			k.SetTxStatus(ctx, e.TxHash, types.TX_STATUS_BATCH_EXECUTED, "x")
			vrt.Assert("c04.refund.final", k.GetTxStatus(ctx, e.TxHash).Status == types.TX_STATUS_REFUNDED)
		} else {
			zzAssertPlaces("refund-failed", st, nil)
		}
	}
}

// ZZ_C04_ExecutedOutOfOrder: several pending batches (also of the same token), one of them observed executed:
// afterwards every transfer of the other batches is still in exactly one place.
func ZZ_C04_ExecutedOutOfOrder() {
	st := zzBuildState(zzStateOpts{maxPool: 0, maxBatches: 3, maxPerBatch: 1, zeroFees: true, concreteIds: true})
	k, ctx, chain := st.env.K, st.env.Ctx, st.chain
	if len(st.batches) < 2 {
		return
	}
	b := st.batches[vrt.Choose("which", len(st.batches))]
	if vrt.Panics(func() {
		k.batchTxExecuted(ctx, chain, b.ExternalTokenId, b.BatchNonce, "exthash", sdk.ZeroInt(), "payer")
	}) {
		return
	}
	vrt.Reach("c04.outoforder")
	gone := map[uint64]bool{}
	for _, t := range b.Transactions {
		gone[t.Id] = true
	}
	zzAssertPlaces("outoforder", st, gone)
	// a later batch request must not pick a transfer that is still in a pending batch
	k.BuildBatchTx(ctx, chain, st.idA, 2)
	k.BuildBatchTx(ctx, chain, st.idB, 2)
	zzAssertPlaces("outoforder.rebatched", st, gone)
}
