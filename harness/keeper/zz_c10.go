package keeper

// C10 — batches are well formed. One BuildBatchTx step (and a second one) from an arbitrary valid pool:
// every pool entry is written by the real setUnbatchedSendToExternal (real key function), ids pairwise distinct.

import (
	"math/big"
	"strings"

	sdk "github.com/cosmos/cosmos-sdk/types"

	"github.com/MinterTeam/mhub2/module/x/mhub2/types"
	"github.com/MinterTeam/mhub2/module/x/zzverif/vrt"
)

func zzDigitStr(name string, lo, hi int) string {
	n := vrt.Len(name+".len", lo, hi)
	b := vrt.Bytes(name, n)
	for i := range b {
		vrt.Assume(b[i] >= '0' && b[i] <= '9')
	}
	return string(b)
}

const (
	zzEthTokA = "0x8C2B6949590bEBE6BC1124B670e58DA85b081b2E"
	zzEthTokB = "0x8C2B6949590bEBE6BC1124B670e58DA85b081b2F"
)

// zzTwoTokens: a chain with two tokens (ids A and B). Minter ids are decimal strings with symbolic digits,
// so that one id may be a prefix of the other; Ethereum ids are fixed-length addresses.
func zzTwoTokens(env *ZZEnv) (types.ChainID, string, string) {
	var chain types.ChainID
	var idA, idB string
	if vrt.Choose("chain", 2) == 0 {
		chain = "minter"
		hi := 2
		idA, idB = zzDigitStr("idA", 1, hi), zzDigitStr("idB", 1, hi)
		vrt.Assume(idA != idB)
	} else {
		chain, idA, idB = "ethereum", zzEthTokA, zzEthTokB
	}
	env.K.setParams(env.Ctx, zzDefaultParams())
	env.K.SetTokenInfos(env.Ctx, &types.TokenInfos{TokenInfos: []*types.TokenInfo{
		{Id: 1, Denom: "hub", ChainId: chain.String(), ExternalTokenId: idA, ExternalDecimals: 18, Commission: sdk.NewDecWithPrec(1, 2)},
		{Id: 2, Denom: "usdt", ChainId: chain.String(), ExternalTokenId: idB, ExternalDecimals: 6, Commission: sdk.NewDecWithPrec(1, 2)},
	}})
	return chain, idA, idB
}

func zzPoolEntry(i int, chain types.ChainID, idA, idB string) *types.SendToExternal {
	n := string(rune('a' + i))
	tok, tid := idA, uint64(1)
	if vrt.Choose("tok"+n, 2) == 1 {
		tok, tid = idB, 2
	}
	fee := sdk.NewIntFromBigInt(vrt.IntRange("fee"+n, big.NewInt(0), zzPow255))
	amt := sdk.NewIntFromBigInt(vrt.IntRange("amt"+n, big.NewInt(0), zzPow255))
	return &types.SendToExternal{
		Id:                vrt.Uint64Below("id"+n, 1<<56),
		Sender:            sdk.AccAddress(vrt.Bytes("sender"+n, 20)).String(),
		ExternalRecipient: "0x0000000000000000000000000000000000000001",
		ChainId:           chain.String(),
		Token:             types.ExternalToken{TokenId: tid, ExternalTokenId: tok, Amount: amt},
		Fee:               types.ExternalToken{TokenId: tid, ExternalTokenId: tok, Amount: fee},
		ValCommission:     types.ExternalToken{TokenId: tid, ExternalTokenId: tok, Amount: sdk.ZeroInt()},
		TxHash:            "h" + n,
		CreatedAt:         vrt.Uint64Below("created"+n, 1<<40),
		RefundAddress:     "",
		RefundChainId:     "hub",
	}
}

func zzFillPool(env *ZZEnv, chain types.ChainID, idA, idB string, max int) []*types.SendToExternal {
	n := vrt.Len("pool", 0, max)
	var pool []*types.SendToExternal
	for i := 0; i < n; i++ {
		ste := zzPoolEntry(i, chain, idA, idB)
		for _, o := range pool {
			vrt.Assume(o.Id != ste.Id) // representation invariant: ids are unique per chain
		}
		pool = append(pool, ste)
		env.K.setUnbatchedSendToExternal(env.Ctx, chain, ste)
	}
	return pool
}

func zzRelated(idA, idB string) string {
	if strings.HasPrefix(idB, idA) {
		return "[other token id extends this id]"
	}
	if strings.HasPrefix(idA, idB) {
		return "[this token id extends the other id]" // the other token's fee bytes can continue its id
	}
	return "[unrelated token ids]"
}

func ZZ_C10_BuildBatch() {
	env := ZZNewEnv(int64(vrt.Uint64Below("height", 1<<40)), 1000)
	k, ctx := env.K, env.Ctx
	chain, idA, idB := zzTwoTokens(env)
	max := 2
	if vrt.Thorough() && chain == "ethereum" {
		// three entries only with the fixed, unrelated ids: with symbolic Minter ids that may extend each other the
		// three-way key ordering query is not decided by the solver within the time limit (reported as a reduced bound)
		max = 4
	}
	pool := zzFillPool(env, chain, idA, idB, max)
	nonce0 := vrt.Uint64Below("nonce0", 1<<56)
	seq0 := vrt.Uint64Below("seq0", 1<<56)
	k.setLastOutgoingBatchNonce(ctx, chain, nonce0)
	k.setOutgoingSequence(ctx, chain, seq0)
	capN := 1 + vrt.Choose("cap", 2)
	if max == 4 {
		capN = 1 + vrt.Choose("cap3", 3)
	}

	nA := 0
	for _, p := range pool {
		if p.Token.ExternalTokenId == idA {
			nA++
		}
	}
	b := k.BuildBatchTx(ctx, chain, idA, capN)
	vrt.Reach("c10.built")
	rel := zzRelated(idA, idB)

	if nA > 0 {
		vrt.Assert("c10.nonempty[token has unbatched transfers]", b != nil && len(b.Transactions) >= 1)
	} else {
		vrt.Assert("c10.nonempty[no unbatched transfer of the token]", b == nil || len(b.Transactions) >= 1)
	}
	if b == nil {
		// no batch was created: then no nonce or sequence number may have been consumed (gap-free numbering)
		vrt.Assert("c10.no-batch-consumes-no-number", k.getLastOutgoingBatchNonce(ctx, chain) == nonce0 && k.getOutgoingSequence(ctx, chain) == seq0)
		b2 := k.BuildBatchTx(ctx, chain, idB, capN)
		if b2 != nil {
			vrt.Assert("c10.nonce.after-empty-request", b2.BatchNonce == nonce0+1 && b2.Sequence == seq0+1)
		}
		return
	}
	vrt.Assert("c10.cap", len(b.Transactions) <= capN)
	vrt.Assert("c10.token-field", b.ExternalTokenId == idA)
	for _, tx := range b.Transactions {
		vrt.Assert("c10.own-token"+rel, tx.Token.ExternalTokenId == idA && tx.Fee.ExternalTokenId == idA)
		vrt.Assert("c10.own-chain", tx.ChainId == chain.String())
	}
	// the batch is what is stored and offered for signing
	stored, _ := k.GetOutgoingTx(ctx, chain, types.MakeBatchTxKey(chain, idA, b.BatchNonce)).(*types.BatchTx)
	vrt.Assert("c10.stored", stored != nil && len(stored.Transactions) == len(b.Transactions) && stored.BatchNonce == b.BatchNonce && stored.Sequence == b.Sequence)
	// highest fees first: no transfer of this token left in the pool outbids a selected one
	rest := k.getUnbatchedSendToExternals(ctx, chain)
	for _, r := range rest {
		if r.Token.ExternalTokenId != idA {
			continue
		}
		for _, s := range b.Transactions {
			vrt.Assert("c10.maxfee"+rel, r.Fee.Amount.LTE(s.Fee.Amount))
		}
	}
	// full when there was enough to fill it
	if nA >= capN {
		vrt.Assert("c10.fills"+rel, len(b.Transactions) == capN)
	}
	// selected ∪ rest = pool (nothing lost, nothing duplicated)
	vrt.Assert("c10.conserve", len(rest)+len(b.Transactions) == len(pool))
	vrt.Assert("c10.nonce", b.BatchNonce == nonce0+1)
	vrt.Assert("c10.sequence", b.Sequence == seq0+1)
	vrt.Assert("c10.counters", k.getLastOutgoingBatchNonce(ctx, chain) == nonce0+1 && k.getOutgoingSequence(ctx, chain) == seq0+1)

	// a second creation (other token): strictly increasing, gap-free
	b2 := k.BuildBatchTx(ctx, chain, idB, capN)
	if b2 != nil {
		vrt.Assert("c10.nonce.second", b2.BatchNonce == nonce0+2 && b2.Sequence == seq0+2)
	}
}

// ZZ_C10_Callers: the permissionless request and the automatic batching pass the cap 100 and the token of the
// request / of the pool entries.
func ZZ_C10_Callers() {
	env := ZZNewEnv(2*int64(vrt.Uint64Below("halfheight", 1<<30)), 1000)
	k, ctx := env.K, env.Ctx
	chain, idA, idB := zzTwoTokens(env)
	pool := zzFillPool(env, chain, idA, idB, 1)
	{
		srv := msgServer{Keeper: k}
		denom := []string{"hub", "usdt", "nope"}[vrt.Choose("denom", 3)]
		var err error
		p := vrt.Panics(func() {
			_, err = srv.RequestBatchTx(sdk.WrapSDKContext(ctx), &types.MsgRequestBatchTx{ChainId: chain.String(), Denom: denom, Signer: ""})
		})
		vrt.Reach("c10.request")
		vrt.Assert("c10.request.nopanic", !p)
		if !p && err == nil {
			want := idA
			if denom == "usdt" {
				want = idB
			}
			k.IterateOutgoingTxsByType(ctx, chain, types.BatchTxPrefixByte, func(_ []byte, otx types.OutgoingTx) bool {
				btx := otx.(*types.BatchTx)
				vrt.Assert("c10.request.token", btx.ExternalTokenId == want)
				if len(pool) == 1 && pool[0].Token.ExternalTokenId == want {
					vrt.Assert("c10.request.selects", len(btx.Transactions) == 1)
				}
				return false
			})
		}
		return
	}
}
