package minter

// C20 (first half) — the cursor the Minter connector persists is consistent: its next event nonce equals the start
// nonce plus the number of bridge events at or below its last-checked block. The real GetLatestMinterBlockAndNonce
// (the catch-up scan run at every start) over a scripted Minter node, from an arbitrary consistent cursor and an
// arbitrary acknowledged nonce; and the real Context.LoadStatus over an absent, valid or damaged status file.

import (
	"encoding/json"
	"os"
	"path/filepath"

	"github.com/MinterTeam/minter-go-sdk/v2/api/http_client"
	"github.com/MinterTeam/minter-go-sdk/v2/api/http_client/client/api_service"
	"github.com/MinterTeam/minter-go-sdk/v2/api/http_client/models"
	"github.com/MinterTeam/minter-go-sdk/v2/transaction"
	sdk "github.com/cosmos/cosmos-sdk/types"
	"github.com/tendermint/tendermint/libs/log"

	"github.com/MinterTeam/mhub2/minter-connector/command"
	"github.com/MinterTeam/mhub2/minter-connector/config"
	"github.com/MinterTeam/mhub2/minter-connector/context"
	"github.com/MinterTeam/mhub2/module/x/zzverif/vrt"
)

const ZZMultisig = "Mx00000000000000000000000000000000000000aa"
const zzOther = "Mx00000000000000000000000000000000000000bb"

// zzNode is the scripted Minter node. It implements the two API calls the scan makes; any other call panics.
type zzNode struct {
	api_service.ClientService
	latest uint64
	blocks []*models.BlockResponse
}

func (n *zzNode) Status(p *api_service.StatusParams, opts ...api_service.ClientOption) (*api_service.StatusOK, error) {
	return &api_service.StatusOK{Payload: &models.StatusResponse{LatestBlockHeight: n.latest}}, nil
}

func (n *zzNode) Blocks(p *api_service.BlocksParams, opts ...api_service.ClientOption) (*api_service.BlocksOK, error) {
	return &api_service.BlocksOK{Payload: n.blocksIn(p.FromHeight, p.ToHeight)}, nil
}

// blocksIn serves every block of [from, to] up to the tip, like a node: scripted blocks where the script has one,
// empty blocks elsewhere.
func (n *zzNode) blocksIn(from, to uint64) *models.BlocksResponse {
	var out []*models.BlockResponse
	if to > n.latest {
		to = n.latest
	}
	for h := from; h <= to; h++ {
		var blk *models.BlockResponse
		for _, b := range n.blocks {
			if b.Height == h {
				blk = b
			}
		}
		if blk == nil {
			blk = &models.BlockResponse{Height: h}
		}
		out = append(out, blk)
	}
	return &models.BlocksResponse{Blocks: out}
}

// environment stubs for the symbolic run (checks.json "stubs"): the SDK client wrappers build request parameters
// and contexts around the ClientService call; only the call itself matters here
func ZZStubStatus(c *http_client.Client) (*models.StatusResponse, error) {
	return &models.StatusResponse{LatestBlockHeight: c.ClientService.(*zzNode).latest}, nil
}

func ZZStubBlocks(c *http_client.Client, from, to uint64, failedTxs, events bool, fieldsBlock ...string) (*models.BlocksResponse, error) {
	return c.ClientService.(*zzNode).blocksIn(from, to), nil
}

// ZZStubUnmarshalNew replaces the JSON round trip of ProtobufAny.UnmarshalNew for the one data type the scan decodes.
func ZZStubUnmarshalNew(m *models.ProtobufAny) (models.Data, error) {
	switch (*m)["@type"].(string) {
	case "type.googleapis.com/api_pb.MultiSendData":
		var list []*models.SendData
		for _, it := range (*m)["list"].([]interface{}) {
			im := it.(map[string]interface{})
			list = append(list, &models.SendData{Coin: zzCoin(im["coin"]), To: im["to"].(string), Value: im["value"].(string)})
		}
		return &models.MultiSendData{List: list}, nil
	case "type.googleapis.com/api_pb.EditMultisigData":
		d := &models.EditMultisigData{Threshold: 667}
		for _, w := range (*m)["weights"].([]interface{}) {
			d.Weights = append(d.Weights, map[string]uint64{"600": 600, "400": 400}[w.(string)])
		}
		for _, a := range (*m)["addresses"].([]interface{}) {
			d.Addresses = append(d.Addresses, a.(string))
		}
		return d, nil
	}
	return &models.SendData{Coin: zzCoin((*m)["coin"]), To: (*m)["to"].(string), Value: (*m)["value"].(string)}, nil
}

func zzCoin(v interface{}) *models.Coin {
	cm := v.(map[string]interface{})
	return &models.Coin{ID: map[string]uint64{"0": 0, "3": 3}[cm["id"].(string)], Symbol: cm["symbol"].(string)}
}

func zzClient(n *zzNode) *http_client.Client {
	if vrt.Symbolic() {
		return &http_client.Client{ClientService: n}
	}
	c, err := http_client.New("http://127.0.0.1:1")
	if err != nil {
		panic(err)
	}
	c.ClientService = n
	return c
}

// transaction kinds of the script
const (
	zzKOther          = iota // an unrelated transaction type
	zzKDeposit               // send to the multisig with a well-formed command
	zzKBatch                 // multisend from the multisig
	zzKValset                // edit-multisig from the multisig, numeric payload
	zzKDepositBadJSON        // send to the multisig, payload is not JSON
	zzKDepositBadCmd         // send to the multisig, JSON command that ValidateAndComplete rejects
	zzKValsetBadNonce        // edit-multisig from the multisig, non-numeric payload
	zzKSendElsewhere         // send to another address
	zzKForeignBatch          // multisend from another address
	zzKForeignValset         // edit-multisig from another address
	zzNKinds
)

func zzSendTx(to string, payload []byte) *models.TransactionResponse {
	data := models.ProtobufAny{"@type": "type.googleapis.com/api_pb.SendData", "to": to, "value": "1000",
		"coin": map[string]interface{}{"id": "0", "symbol": "BIP"}}
	return &models.TransactionResponse{Type: uint64(transaction.TypeSend), From: zzOther, Data: &data, Payload: payload}
}

const ZZBatchCoin = 3

func zzMultisendData() *models.ProtobufAny {
	return &models.ProtobufAny{"@type": "type.googleapis.com/api_pb.MultiSendData", "list": []interface{}{
		map[string]interface{}{"coin": map[string]interface{}{"id": "3", "symbol": "HUBABUBA"}, "to": zzOther, "value": "5"}}}
}

func zzEditMultisigData() *models.ProtobufAny {
	return &models.ProtobufAny{"@type": "type.googleapis.com/api_pb.EditMultisigData", "threshold": "667",
		"weights": []interface{}{"600", "400"}, "addresses": []interface{}{"Mx0000000000000000000000000000000000000001", "Mx0000000000000000000000000000000000000002"}}
}

func zzTx(kind int, valsetNonce string) *models.TransactionResponse {
	switch kind {
	case zzKDeposit:
		p, _ := json.Marshal(command.Command{Type: command.TypeSendToEth, Recipient: "0x00000000000000000000000000000000000000cc", Fee: "1"})
		return zzSendTx(ZZMultisig, p)
	case zzKDepositBadJSON:
		return zzSendTx(ZZMultisig, []byte("{not json"))
	case zzKDepositBadCmd:
		p, _ := json.Marshal(command.Command{Type: command.TypeSendToEth, Recipient: "0x00000000000000000000000000000000000000cc", Fee: "995"})
		return zzSendTx(ZZMultisig, p)
	case zzKSendElsewhere:
		p, _ := json.Marshal(command.Command{Type: command.TypeSendToEth, Recipient: "0x00000000000000000000000000000000000000cc", Fee: "1"})
		return zzSendTx(zzOther, p)
	case zzKBatch:
		return &models.TransactionResponse{Type: uint64(transaction.TypeMultisend), From: ZZMultisig, Data: zzMultisendData()}
	case zzKForeignBatch:
		return &models.TransactionResponse{Type: uint64(transaction.TypeMultisend), From: zzOther, Data: zzMultisendData()}
	case zzKValset:
		return &models.TransactionResponse{Type: uint64(transaction.TypeEditMultisig), From: ZZMultisig, Payload: []byte(valsetNonce), Data: zzEditMultisigData()}
	case zzKValsetBadNonce:
		return &models.TransactionResponse{Type: uint64(transaction.TypeEditMultisig), From: ZZMultisig, Payload: []byte("x"), Data: zzEditMultisigData()}
	case zzKForeignValset:
		return &models.TransactionResponse{Type: uint64(transaction.TypeEditMultisig), From: zzOther, Payload: []byte(valsetNonce), Data: zzEditMultisigData()}
	}
	return &models.TransactionResponse{Type: uint64(transaction.TypeSellCoin), From: zzOther}
}

// ZZIsBridgeEvent: the reference classification, by the rule of the property (a deposit counts iff its command is
// well formed: decided with the real ValidateAndComplete, which C20's other half checks).
func ZZIsBridgeEvent(kind int) (event, batch, valset bool) {
	switch kind {
	case zzKDeposit, zzKDepositBadCmd:
		fee := "1"
		if kind == zzKDepositBadCmd {
			fee = "995"
		}
		cmd := &command.Command{Type: command.TypeSendToEth, Recipient: "0x00000000000000000000000000000000000000cc", Fee: fee}
		return cmd.ValidateAndComplete(sdk.NewInt(1000)) == nil, false, false
	case zzKBatch:
		return true, true, false
	case zzKValset:
		return true, false, true
	}
	return false, false, false
}

type ZZScript struct {
	First  uint64
	Gap    uint64 // empty blocks between First and the scripted ones
	Kinds  [][]int  // per block
	Vnonce []string // the valset nonce a block's edit-multisig transactions carry
	node   *zzNode
}

func ZZBuildScript(maxBlocks, maxTx, nKinds int) *ZZScript {
	return ZZBuildScriptGap(maxBlocks, maxTx, nKinds, 0, 0)
}

// ZZBuildScriptGap: the scripted blocks come after `gap` empty blocks and are followed by `tail` empty blocks (the
// connector is behind the node).
func ZZBuildScriptGap(maxBlocks, maxTx, nKinds int, gap, tail uint64) *ZZScript {
	nBlocks := vrt.Len("blocks", 0, maxBlocks)
	s := &ZZScript{First: []uint64{0, 7, 250}[vrt.Choose("first.block", 3)]}
	s.Gap = gap
	s.node = &zzNode{latest: s.First + gap + uint64(nBlocks) + tail}
	for b := 0; b < nBlocks; b++ {
		bn := string(rune('0' + b))
		nt := vrt.Len("block"+bn+".txs", 0, maxTx)
		vn := []string{"5", "9", "12"}[b%3]
		blk := &models.BlockResponse{Height: s.First + s.Gap + 1 + uint64(b)}
		var ks []int
		for t := 0; t < nt; t++ {
			k := vrt.Choose("block"+bn+".tx"+string(rune('0'+t)), nKinds)
			ks = append(ks, k)
			blk.Transactions = append(blk.Transactions, zzTx(k, vn))
		}
		s.Kinds = append(s.Kinds, ks)
		s.Vnonce = append(s.Vnonce, vn)
		s.node.blocks = append(s.node.blocks, blk)
	}
	return s
}

// expected cursor at block height h (first <= h <= latest) from the start cursor
func (s *ZZScript) Expect(start context.ZZCursor, h uint64) context.ZZCursor {
	c := start
	c.Block = h
	for b, ks := range s.Kinds {
		if s.First+s.Gap+1+uint64(b) > h {
			break
		}
		for _, k := range ks {
			ev, batch, valset := ZZIsBridgeEvent(k)
			if ev {
				c.EventNonce++
			}
			if batch {
				c.BatchNonce++
			}
			if valset {
				c.ValsetNonce = map[string]uint64{"5": 5, "9": 9, "12": 12}[s.Vnonce[b]]
			}
		}
	}
	return c
}

// ZZEvent is one bridge event of the script, in history order.
type ZZEvent struct {
	Kind        int
	Height      uint64
	ValsetNonce uint64
}

const (
	ZZKDeposit = zzKDeposit
	ZZKBatch   = zzKBatch
	ZZKValset  = zzKValset
)

func (s *ZZScript) Client() *http_client.Client { return zzClient(s.node) }
func (s *ZZScript) Latest() uint64              { return s.node.latest }

// Events lists the bridge events at or below block h.
func (s *ZZScript) Events(h uint64) []ZZEvent {
	var out []ZZEvent
	for b, ks := range s.Kinds {
		height := s.First + s.Gap + 1 + uint64(b)
		if height > h {
			break
		}
		for _, k := range ks {
			if ev, _, _ := ZZIsBridgeEvent(k); ev {
				out = append(out, ZZEvent{Kind: k, Height: height, ValsetNonce: map[string]uint64{"5": 5, "9": 9, "12": 12}[s.Vnonce[b]]})
			}
		}
	}
	return out
}

func (s *ZZScript) EventsIn(h uint64) int {
	n := 0
	for b, ks := range s.Kinds {
		if s.First+s.Gap+1+uint64(b) == h {
			for _, k := range ks {
				if ev, _, _ := ZZIsBridgeEvent(k); ev {
					n++
				}
			}
		}
	}
	return n
}

func ZZStatusPath() string {
	if vrt.Symbolic() {
		return "connector-status.json"
	}
	dir, err := os.MkdirTemp("", "zzc20-")
	if err != nil {
		panic(err)
	}
	return filepath.Join(dir, "connector-status.json")
}

func ZZReadStatus(path string) ([]byte, bool) {
	data, err := os.ReadFile(path)
	return data, err == nil
}

// ZZ_C20_CatchUp: one start of the connector. The cursor is loaded (real LoadStatus; no status file: the configured
// start values, any), the hub acknowledges any event nonce, the real catch-up scan runs over the script.
func ZZ_C20_CatchUp() {
	nBlocks, maxTx, nKinds := 2, 2, 7
	if vrt.Thorough() {
		if vrt.Choose("shape", 2) == 0 {
			nBlocks, maxTx, nKinds = 2, 2, zzNKinds // every transaction kind
		} else {
			nBlocks, maxTx, nKinds = 3, 2, 3 // longer history: unrelated transaction, valid deposit, batch
		}
	}
	s := ZZBuildScript(nBlocks, maxTx, nKinds)
	start := context.ZZCursor{Block: s.First, EventNonce: 1 + vrt.Uint64Below("start.eventNonce", 1<<56),
		BatchNonce: vrt.Uint64Below("start.batchNonce", 1<<56), ValsetNonce: vrt.Uint64Below("start.valsetNonce", 1<<56)}
	path := ZZStatusPath()
	if !vrt.Symbolic() {
		defer os.RemoveAll(filepath.Dir(path))
	}
	ctx := context.Context{MinterMultisigAddr: ZZMultisig, MinterClient: zzClient(s.node), Logger: log.NewNopLogger()}
	ctx.LoadStatus(path, config.MinterConfig{StartBlock: start.Block, StartEventNonce: start.EventNonce, StartBatchNonce: start.BatchNonce, StartValsetNonce: start.ValsetNonce})
	vrt.Assert("c20.load.no-file-gives-configured-start", ctx.ZZCursor() == start)
	acked := vrt.Uint64Below("acknowledged.nonce", 1<<57)

	out := GetLatestMinterBlockAndNonce(ctx, acked)
	vrt.Reach("c20.catchup.returned")
	got := out.ZZCursor()
	// what was persisted is what the connector continues with
	data, written := ZZReadStatus(path)
	if written {
		onDisk, ok := context.ZZDecodeCursor(data)
		vrt.Assert("c20.cursor.persisted-is-returned", ok && onDisk == got)
	} else {
		vrt.Assert("c20.cursor.nothing-persisted-means-unchanged", got == start)
	}
	vrt.Assert("c20.cursor.block-in-range", got.Block >= s.First && got.Block <= s.node.latest)
	if got.Block < s.First || got.Block > s.node.latest {
		return
	}
	want := s.Expect(start, got.Block)
	cls := ""
	if got.Block < s.node.latest && s.EventsIn(got.Block+1) >= 2 {
		cls = "[scan stopped inside a block that holds several bridge events]"
	}
	if got.Block == s.node.latest {
		vrt.Reach("c20.catchup.scanned-to-the-tip")
	} else {
		vrt.Reach("c20.catchup.stopped-early")
	}
	vrt.Check("c20.cursor.event-nonce-consistent"+cls, got.EventNonce == want.EventNonce)
	vrt.Check("c20.cursor.batch-nonce-consistent"+cls, got.BatchNonce == want.BatchNonce)
	vrt.Check("c20.cursor.valset-nonce-consistent"+cls, got.ValsetNonce == want.ValsetNonce)
	// the scan stops early only once everything the hub acknowledged has been passed
	if got.Block < s.node.latest {
		vrt.Assert("c20.catchup.stops-only-after-acknowledged", acked > 0 && got.EventNonce > acked)
	}
}

// ZZ_C20_LoadStatus: a restart reads back the cursor of the last commit; a missing or damaged status file
// (os.WriteFile truncates before it writes: a crash in between leaves an empty or partial file) falls back to the
// configured start values, never to a made-up cursor.
func ZZ_C20_LoadStatus() {
	def := config.MinterConfig{StartBlock: vrt.Uint64Below("cfg.block", 1<<56), StartEventNonce: 1 + vrt.Uint64Below("cfg.eventNonce", 1<<56),
		StartBatchNonce: vrt.Uint64Below("cfg.batchNonce", 1<<56), StartValsetNonce: vrt.Uint64Below("cfg.valsetNonce", 1<<56)}
	defCur := context.ZZCursor{Block: def.StartBlock, EventNonce: def.StartEventNonce, BatchNonce: def.StartBatchNonce, ValsetNonce: def.StartValsetNonce}
	last := context.ZZCursor{Block: vrt.Uint64Below("last.block", 1<<56), EventNonce: vrt.Uint64Below("last.eventNonce", 1<<56),
		BatchNonce: vrt.Uint64Below("last.batchNonce", 1<<56), ValsetNonce: vrt.Uint64Below("last.valsetNonce", 1<<56)}
	path := ZZStatusPath()
	if !vrt.Symbolic() {
		defer os.RemoveAll(filepath.Dir(path))
	}
	kind := vrt.Choose("file", 4)
	var content []byte
	switch kind {
	case 1:
		content = context.ZZEncodeCursor(last)
	case 2:
		content = []byte{} // truncated by a crash inside os.WriteFile
	case 3:
		content = []byte(`{"last_checked_minter_block":12,"last_ev`) // partially written
	}
	if kind != 0 {
		if vrt.Symbolic() {
			context.ZZSetFile(content)
		} else if err := os.WriteFile(path, content, 0o644); err != nil {
			panic(err)
		}
	}
	ctx := context.Context{}
	ctx.LoadStatus(path, def)
	vrt.Reach("c20.load.returned")
	got := ctx.ZZCursor()
	switch kind {
	case 0:
		vrt.Assert("c20.load.no-file-gives-configured-start", got == defCur)
	case 1:
		vrt.Assert("c20.load.restores-last-commit", got == last)
	default:
		vrt.Assert("c20.load.damaged-file-gives-configured-start", got == defCur)
	}
}

// ZZGapChoice: how far the connector is behind the node (empty blocks before and after the scripted ones): around
// the 100-block page size, and with the scripted blocks inside the second and third page.
func ZZGapChoice() (gap, tail uint64) {
	if vrt.Thorough() {
		c := [][2]uint64{{98, 0}, {99, 0}, {100, 0}, {101, 0}, {150, 0}, {120, 130}, {201, 0}, {199, 120}, {250, 70}, {30, 300}}[vrt.Choose("gap.t", 10)]
		return c[0], c[1]
	}
	c := [][2]uint64{{99, 0}, {100, 0}, {150, 0}, {120, 130}}[vrt.Choose("gap", 4)]
	return c[0], c[1]
}

// ZZ_C20_CatchUpPaging: the catch-up scan when the connector is more than a page (100 blocks) behind the node: every
// block is scanned once, events behind the first page get the right nonce.
func ZZ_C20_CatchUpPaging() {
	gap, tail := ZZGapChoice()
	s := ZZBuildScriptGap(2, 1, 3, gap, tail)
	start := context.ZZCursor{Block: s.First, EventNonce: 1 + vrt.Uint64Below("start.eventNonce", 1<<56),
		BatchNonce: vrt.Uint64Below("start.batchNonce", 1<<56), ValsetNonce: vrt.Uint64Below("start.valsetNonce", 1<<56)}
	path := ZZStatusPath()
	if !vrt.Symbolic() {
		defer os.RemoveAll(filepath.Dir(path))
	}
	ctx := context.Context{MinterMultisigAddr: ZZMultisig, MinterClient: zzClient(s.node), Logger: log.NewNopLogger()}
	ctx.LoadStatus(path, config.MinterConfig{StartBlock: start.Block, StartEventNonce: start.EventNonce, StartBatchNonce: start.BatchNonce, StartValsetNonce: start.ValsetNonce})
	acked := vrt.Uint64Below("acknowledged.nonce", 1<<57)
	out := GetLatestMinterBlockAndNonce(ctx, acked)
	vrt.Reach("c20.paging.catchup.returned")
	got := out.ZZCursor()
	vrt.Assert("c20.paging.catchup.block-in-range", got.Block >= s.First && got.Block <= s.node.latest)
	if got.Block < s.First || got.Block > s.node.latest {
		return
	}
	want := s.Expect(start, got.Block)
	cls := ""
	if got.Block < s.node.latest && s.EventsIn(got.Block+1) >= 2 {
		cls = "[scan stopped inside a block that holds several bridge events]"
	}
	vrt.Check("c20.paging.catchup.cursor-consistent"+cls, got == want)
	if got.Block < s.node.latest {
		vrt.Assert("c20.paging.catchup.stops-only-after-acknowledged", acked > 0 && got.EventNonce > acked)
	} else {
		vrt.Reach("c20.paging.catchup.tip")
	}
}
