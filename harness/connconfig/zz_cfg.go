package config

// ZZStubGet replaces config.Get (flag parsing + config.toml) in the symbolic run: the configuration the replay
// binary is started with.
func ZZStubGet() *Config {
	if cfg == nil {
		cfg = &Config{Minter: MinterConfig{MultisigAddr: "Mx00000000000000000000000000000000000000aa"}}
	}
	return cfg
}
