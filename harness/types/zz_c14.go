package types

// C14 — votes aggregate only on identical events.
// Two symbolic events of the same type and nonce that both pass the real Validate(chainId); sha256 is an
// injective uninterpreted function, so equal claim hashes mean equal pre-images byte for byte.
// One obligation per (event type, field of the property's list).

import (
	"bytes"
	"math/big"

	sdk "github.com/cosmos/cosmos-sdk/types"
	"github.com/ethereum/go-ethereum/common"

	"github.com/MinterTeam/mhub2/module/x/zzverif/vrt"
)

func zzAmountBound() *big.Int {
	if vrt.Thorough() {
		return new(big.Int).Lsh(big.NewInt(1), 32)
	}
	return new(big.Int).Lsh(big.NewInt(1), 16)
}

// zzLenPair: lengths of a variable-length field of the two events; la <= lb without loss of generality
// (every assertion below is symmetric in a and b).
var zzMinLen = map[string]int{}

func zzLen(name string, lo, hi int) int {
	// name is "a.<field>.len" or "b.<field>.len"; b's lower bound is a's length
	field := name[2:]
	if name[0] == 'a' {
		l := vrt.Len(name, lo, hi)
		zzMinLen[field] = l
		return l
	}
	if m, ok := zzMinLen[field]; ok && m > lo {
		lo = m
	}
	return vrt.Len(name, lo, hi)
}

func zzDigits(name string, n int) string {
	b := vrt.Bytes(name, n)
	for i := range b {
		vrt.Assume(b[i] >= '0' && b[i] <= '9')
	}
	return string(b)
}

func zzCoinId(name string, chain ChainID) string {
	if chain == "minter" {
		hi := 2
		if vrt.Thorough() {
			hi = 3
		}
		return zzDigits(name, zzLen(name+".len", 1, hi))
	}
	// a contract address as validators may report it: checksummed, or 0x + 40 hex digits in any letter case
	// (Validate only asks for a hex address; the hub looks tokens up by the exact string)
	if vrt.Choose(name+".form", 2) == 0 {
		return common.BytesToAddress(vrt.Bytes(name, 20)).Hex()
	}
	return "0x" + string(vrt.Bytes(name+".raw", 40)) // Validate (IsHexAddress) constrains the characters
}

// zzSender: an external sender as validators may report it: checksummed with 0x prefix, or 40 raw hex digits.
func zzSender(name string) string {
	if vrt.Choose(name+".form", 2) == 0 {
		return common.BytesToAddress(vrt.Bytes(name, 20)).Hex()
	}
	return string(vrt.Bytes(name+".raw", 40)) // Validate (IsHexAddress) constrains the characters
}

// zzLenClass / zzSenderClass split an obligation by input class so that a known finding covers only its class.
func zzLenClass(a, b string) string {
	if len(a) == len(b) {
		return "[same-length ids]"
	}
	return "[ids of different length]"
}

func zzSenderClass(a, b string) string {
	if len(a) == 40 && len(b) == 40 {
		return "[raw hex senders]"
	}
	return "[0x-prefixed sender]"
}

func zzTxHash(name string) string {
	return string(vrt.Bytes(name, zzLen(name+".len", 1, 2)))
}

func zzChain(name string) ChainID {
	return ChainID([]string{"minter", "ethereum"}[vrt.Choose(name, 2)])
}

func zzSendToHub(p string, chain ChainID) *SendToHubEvent {
	return &SendToHubEvent{
		EventNonce:     vrt.Uint64(p + ".nonce"),
		ExternalCoinId: zzCoinId(p+".coin", chain),
		Amount:         sdk.NewIntFromBigInt(vrt.IntRange(p+".amount", big.NewInt(0), zzAmountBound())),
		Sender:         zzSender(p + ".sender"),
		CosmosReceiver: sdk.AccAddress(vrt.Bytes(p+".rcv", 20)).String(),
		ExternalHeight: vrt.Uint64(p + ".height"),
		TxHash:         zzTxHash(p + ".txhash"),
	}
}

func ZZ_C14_SendToHub() {
	chain := zzChain("chain")
	a, b := zzSendToHub("a", chain), zzSendToHub("b", chain)
	vrt.Assume(a.Validate(chain) == nil && b.Validate(chain) == nil)
	vrt.Assume(a.EventNonce == b.EventNonce)
	same := bytes.Equal(a.Hash(), b.Hash())
	vrt.Reach("c14.sth")
	vrt.Assert("c14.sth.asset"+zzLenClass(a.ExternalCoinId, b.ExternalCoinId), !same || a.ExternalCoinId == b.ExternalCoinId)
	vrt.Assert("c14.sth.amount", !same || a.Amount.Equal(b.Amount))
	// SendToHubEvent.Sender has no effect on state (only passed to hooks): not asserted
	vrt.Assert("c14.sth.recipient", !same || a.CosmosReceiver == b.CosmosReceiver)
	vrt.Assert("c14.sth.height", !same || a.ExternalHeight == b.ExternalHeight)
	vrt.Assert("c14.sth.txhash", !same || a.TxHash == b.TxHash)
}

func zzTransferToChain(p string, chain ChainID) *TransferToChainEvent {
	lim := zzAmountBound()
	return &TransferToChainEvent{
		EventNonce:       vrt.Uint64(p + ".nonce"),
		ExternalCoinId:   zzCoinId(p+".coin", chain),
		Amount:           sdk.NewIntFromBigInt(vrt.IntRange(p+".amount", big.NewInt(0), lim)),
		Fee:              sdk.NewIntFromBigInt(vrt.IntRange(p+".fee", new(big.Int).Neg(lim), lim)),
		Sender:           zzSender(p + ".sender"),
		ReceiverChainId:  zzDest(p),
		ExternalReceiver: common.BytesToAddress(vrt.Bytes(p+".rcv", 20)).Hex(),
		ExternalHeight:   vrt.Uint64(p + ".height"),
		TxHash:           zzTxHash(p + ".txhash"),
	}
}

// zzDest: destination chains of the pair, from a fixed list of (a,b) combinations.
func zzDest(p string) string {
	pairs := [][2]string{{"hub", "hub"}, {"hub", "ethereum"}, {"bsc", "minter"}, {"minter", "minter"}}
	k := vrt.Choose("dest.pair", len(pairs))
	if p == "a" {
		return pairs[k][0]
	}
	return pairs[k][1]
}

func ZZ_C14_TransferToChain() {
	chain := zzChain("chain")
	a, b := zzTransferToChain("a", chain), zzTransferToChain("b", chain)
	vrt.Assume(a.Validate(chain) == nil && b.Validate(chain) == nil)
	vrt.Assume(a.EventNonce == b.EventNonce)
	same := bytes.Equal(a.Hash(), b.Hash())
	vrt.Reach("c14.ttc")
	vrt.Assert("c14.ttc.asset"+zzLenClass(a.ExternalCoinId, b.ExternalCoinId), !same || a.ExternalCoinId == b.ExternalCoinId)
	vrt.Assert("c14.ttc.amount", !same || a.Amount.Equal(b.Amount))
	vrt.Assert("c14.ttc.fee", !same || a.Fee.Equal(b.Fee))
	vrt.Assert("c14.ttc.sender"+zzSenderClass(a.Sender, b.Sender), !same || common.HexToAddress(a.Sender) == common.HexToAddress(b.Sender))
	vrt.Assert("c14.ttc.recipient", !same || a.ExternalReceiver == b.ExternalReceiver)
	vrt.Assert("c14.ttc.destchain", !same || a.ReceiverChainId == b.ReceiverChainId)
	vrt.Assert("c14.ttc.height", !same || a.ExternalHeight == b.ExternalHeight)
	vrt.Assert("c14.ttc.txhash", !same || a.TxHash == b.TxHash)
}

func zzBatchExecuted(p string, chain ChainID) *BatchExecutedEvent {
	return &BatchExecutedEvent{
		ExternalCoinId: zzCoinId(p+".coin", chain),
		EventNonce:     vrt.Uint64(p + ".nonce"),
		ExternalHeight: vrt.Uint64(p + ".height"),
		BatchNonce:     vrt.Uint64(p + ".batchnonce"),
		TxHash:         zzTxHash(p + ".txhash"),
		FeePaid:        sdk.NewIntFromBigInt(vrt.IntRange(p+".feepaid", new(big.Int).Neg(zzAmountBound()), zzAmountBound())),
		FeePayer:       zzTxHash(p + ".feepayer"),
	}
}

func ZZ_C14_BatchExecuted() {
	chain := zzChain("chain")
	a, b := zzBatchExecuted("a", chain), zzBatchExecuted("b", chain)
	vrt.Assume(a.Validate(chain) == nil && b.Validate(chain) == nil)
	vrt.Assume(a.EventNonce == b.EventNonce)
	same := bytes.Equal(a.Hash(), b.Hash())
	vrt.Reach("c14.bee")
	vrt.Assert("c14.bee.asset", !same || a.ExternalCoinId == b.ExternalCoinId)
	vrt.Assert("c14.bee.batchnonce", !same || a.BatchNonce == b.BatchNonce)
	vrt.Assert("c14.bee.height", !same || a.ExternalHeight == b.ExternalHeight)
	vrt.Assert("c14.bee.txhash", !same || a.TxHash == b.TxHash)
	vrt.Assert("c14.bee.feepaid", !same || a.FeePaid.Equal(b.FeePaid))
	vrt.Assert("c14.bee.feepayer", !same || a.FeePayer == b.FeePayer)
}

func zzContractCallExecuted(p string) *ContractCallExecutedEvent {
	return &ContractCallExecutedEvent{
		EventNonce:        vrt.Uint64(p + ".nonce"),
		InvalidationScope: vrt.Bytes(p+".scope", vrt.Len(p+".scope.len", 0, 2)),
		InvalidationNonce: vrt.Uint64(p + ".invnonce"),
		ExternalHeight:    vrt.Uint64(p + ".height"),
		TxHash:            zzTxHash(p + ".txhash"),
	}
}

func ZZ_C14_ContractCallExecuted() {
	chain := ChainID("ethereum")
	a, b := zzContractCallExecuted("a"), zzContractCallExecuted("b")
	vrt.Assume(a.Validate(chain) == nil && b.Validate(chain) == nil)
	vrt.Assume(a.EventNonce == b.EventNonce)
	same := bytes.Equal(a.Hash(), b.Hash())
	vrt.Reach("c14.ccee")
	vrt.Assert("c14.ccee.scope", !same || bytes.Equal(a.InvalidationScope, b.InvalidationScope))
	vrt.Assert("c14.ccee.invnonce", !same || a.InvalidationNonce == b.InvalidationNonce)
	vrt.Assert("c14.ccee.height", !same || a.ExternalHeight == b.ExternalHeight)
	// ContractCallExecutedEvent.TxHash has no effect on state: not asserted
}

func zzMembers(p string) []*ExternalSigner {
	n := vrt.Len(p+".n", 0, 2)
	ms := make([]*ExternalSigner, 0, n)
	for i := 0; i < n; i++ {
		q := p + "." + string(rune('0'+i))
		ms = append(ms, &ExternalSigner{Power: vrt.Uint64(q + ".power"), ExternalAddress: common.BytesToAddress(vrt.Bytes(q+".addr", 20)).Hex()})
	}
	return ms
}

// zzSameMembers: equality as multisets (Hash() sorts the list in place before anything is stored).
func zzSameMembers(a, b []*ExternalSigner) bool {
	if len(a) != len(b) {
		return false
	}
	eq := func(x, y *ExternalSigner) bool { return x.Power == y.Power && x.ExternalAddress == y.ExternalAddress }
	switch len(a) {
	case 0:
		return true
	case 1:
		return eq(a[0], b[0])
	case 2:
		return (eq(a[0], b[0]) && eq(a[1], b[1])) || (eq(a[0], b[1]) && eq(a[1], b[0]))
	}
	panic("zzSameMembers: bound")
}

func ZZ_C14_SignerSetExecuted() {
	chain := ChainID("ethereum")
	mk := func(p string) *SignerSetTxExecutedEvent {
		return &SignerSetTxExecutedEvent{
			EventNonce:       vrt.Uint64(p + ".nonce"),
			SignerSetTxNonce: vrt.Uint64(p + ".ssnonce"),
			ExternalHeight:   vrt.Uint64(p + ".height"),
			Members:          zzMembers(p + ".m"),
			TxHash:           zzTxHash(p + ".txhash"),
		}
	}
	a, b := mk("a"), mk("b")
	vrt.Assume(a.Members != nil && b.Members != nil)
	vrt.Assume(a.Validate(chain) == nil && b.Validate(chain) == nil)
	vrt.Assume(a.EventNonce == b.EventNonce)
	same := bytes.Equal(a.Hash(), b.Hash())
	vrt.Reach("c14.sse")
	vrt.Assert("c14.sse.ssnonce", !same || a.SignerSetTxNonce == b.SignerSetTxNonce)
	vrt.Assert("c14.sse.height", !same || a.ExternalHeight == b.ExternalHeight)
	vrt.Assert("c14.sse.members", !same || zzSameMembers(a.Members, b.Members))
	// SignerSetTxExecutedEvent.TxHash has no effect on state: not asserted
}

// ZZ_C14_Type: events of different types with the same nonce (the vote record key is nonce ‖ hash).
func ZZ_C14_Type() {
	chain := ChainID("minter")
	a := zzSendToHub("a", chain)
	b := zzBatchExecuted("b", chain)
	vrt.Assume(a.Validate(chain) == nil && b.Validate(chain) == nil)
	vrt.Assume(a.EventNonce == b.EventNonce)
	vrt.Reach("c14.type")
	vrt.Assert("c14.type.sth-vs-bee", !bytes.Equal(a.Hash(), b.Hash()))
}

// ---- one-field-at-a-time variants (quick tier): b equals a except for one field (or one adjacent pair of
// variable-length fields, to cover shifts across a field boundary) ----

func ZZ_C14_SendToHub_Fields() {
	chain := zzChain("chain")
	a := zzSendToHub("a", chain)
	b := *a
	field := vrt.Choose("field", 6)
	switch field {
	case 0:
		b.ExternalCoinId = zzCoinId("b.coin", chain)
	case 1:
		b.Amount = sdk.NewIntFromBigInt(vrt.IntRange("b.amount", big.NewInt(0), zzAmountBound()))
	case 2:
		b.CosmosReceiver = sdk.AccAddress(vrt.Bytes("b.rcv", 20)).String()
	case 3:
		b.ExternalHeight = vrt.Uint64("b.height")
	case 4:
		b.TxHash = zzTxHash("b.txhash")
	case 5: // shift between the coin id and the amount
		b.ExternalCoinId = zzCoinId("b.coin", chain)
		b.Amount = sdk.NewIntFromBigInt(vrt.IntRange("b.amount", big.NewInt(0), zzAmountBound()))
	}
	vrt.Assume(a.Validate(chain) == nil && b.Validate(chain) == nil)
	same := bytes.Equal(a.Hash(), b.Hash())
	vrt.Reach("c14.sth")
	switch field {
	case 0, 5:
		vrt.Assert("c14.sth.asset"+zzLenClass(a.ExternalCoinId, b.ExternalCoinId), !same || a.ExternalCoinId == b.ExternalCoinId)
		vrt.Assert("c14.sth.amount", !same || a.Amount.Equal(b.Amount))
	case 1:
		vrt.Assert("c14.sth.amount", !same || a.Amount.Equal(b.Amount))
	case 2:
		vrt.Assert("c14.sth.recipient", !same || a.CosmosReceiver == b.CosmosReceiver)
	case 3:
		vrt.Assert("c14.sth.height", !same || a.ExternalHeight == b.ExternalHeight)
	case 4:
		vrt.Assert("c14.sth.txhash", !same || a.TxHash == b.TxHash)
	}
}

func ZZ_C14_TransferToChain_Fields() {
	chain := zzChain("chain")
	a := zzTransferToChain("a", chain)
	b := *a
	field := vrt.Choose("field", 9)
	lim := zzAmountBound()
	switch field {
	case 0:
		b.ExternalCoinId = zzCoinId("b.coin", chain)
	case 1:
		b.Amount = sdk.NewIntFromBigInt(vrt.IntRange("b.amount", big.NewInt(0), lim))
	case 2:
		b.Fee = sdk.NewIntFromBigInt(vrt.IntRange("b.fee", new(big.Int).Neg(lim), lim))
	case 3:
		b.Sender = zzSender("b.sender")
	case 4:
		b.ExternalReceiver = common.BytesToAddress(vrt.Bytes("b.rcv", 20)).Hex()
	case 5:
		b.ReceiverChainId = []string{"hub", "ethereum", "bsc", "minter"}[vrt.Choose("b.dest", 4)]
	case 6:
		b.ExternalHeight = vrt.Uint64("b.height")
	case 7:
		b.TxHash = zzTxHash("b.txhash")
	case 8: // shifts: coin id / amount / sender
		b.ExternalCoinId = zzCoinId("b.coin", chain)
		b.Amount = sdk.NewIntFromBigInt(vrt.IntRange("b.amount", big.NewInt(0), lim))
		b.Sender = zzSender("b.sender")
	}
	vrt.Assume(a.Validate(chain) == nil && b.Validate(chain) == nil)
	same := bytes.Equal(a.Hash(), b.Hash())
	vrt.Reach("c14.ttc")
	switch field {
	case 0:
		vrt.Assert("c14.ttc.asset"+zzLenClass(a.ExternalCoinId, b.ExternalCoinId), !same || a.ExternalCoinId == b.ExternalCoinId)
	case 1:
		vrt.Assert("c14.ttc.amount", !same || a.Amount.Equal(b.Amount))
	case 2:
		vrt.Assert("c14.ttc.fee", !same || a.Fee.Equal(b.Fee))
	case 3:
		vrt.Assert("c14.ttc.sender"+zzSenderClass(a.Sender, b.Sender), !same || common.HexToAddress(a.Sender) == common.HexToAddress(b.Sender))
	case 4:
		vrt.Assert("c14.ttc.recipient", !same || a.ExternalReceiver == b.ExternalReceiver)
	case 5:
		vrt.Assert("c14.ttc.destchain", !same || a.ReceiverChainId == b.ReceiverChainId)
	case 6:
		vrt.Assert("c14.ttc.height", !same || a.ExternalHeight == b.ExternalHeight)
	case 7:
		vrt.Assert("c14.ttc.txhash", !same || a.TxHash == b.TxHash)
	case 8:
		vrt.Assert("c14.ttc.asset"+zzLenClass(a.ExternalCoinId, b.ExternalCoinId), !same || a.ExternalCoinId == b.ExternalCoinId)
		vrt.Assert("c14.ttc.amount", !same || a.Amount.Equal(b.Amount))
		vrt.Assert("c14.ttc.sender"+zzSenderClass(a.Sender, b.Sender), !same || common.HexToAddress(a.Sender) == common.HexToAddress(b.Sender))
	}
}

// ZZ_C14_LargeAmounts: amounts far above 2^64 (where a truncated or fixed-width encoding of the amount would
// collide); each amount is taken from a window in which its byte length is fixed, so big.Int.Bytes() does not fork.
func ZZ_C14_LargeAmounts() {
	chain := ChainID("ethereum")
	windows := [][2]uint{{56, 64}, {64, 72}, {120, 128}, {248, 255}}
	pick := func(name string) sdk.Int {
		w := windows[vrt.Choose(name+".window", len(windows))]
		return sdk.NewIntFromBigInt(vrt.IntRange(name, new(big.Int).Lsh(big.NewInt(1), w[0]), new(big.Int).Sub(new(big.Int).Lsh(big.NewInt(1), w[1]), big.NewInt(1))))
	}
	amtA, amtB := pick("a.amount"), pick("b.amount")
	tok := common.BytesToAddress(vrt.Bytes("token", 20)).Hex()
	rcv := sdk.AccAddress(vrt.Bytes("rcv", 20)).String()
	if vrt.Choose("type", 2) == 0 {
		a := &SendToHubEvent{EventNonce: 1, ExternalCoinId: tok, Amount: amtA, Sender: "0x00000000000000000000000000000000000000aa", CosmosReceiver: rcv, ExternalHeight: 5, TxHash: "h"}
		b := *a
		b.Amount = amtB
		vrt.Assume(a.Validate(chain) == nil && b.Validate(chain) == nil)
		vrt.Reach("c14.large")
		vrt.Assert("c14.sth.amount", !bytes.Equal(a.Hash(), b.Hash()) || amtA.Equal(amtB))
		return
	}
	a := &TransferToChainEvent{EventNonce: 1, ExternalCoinId: tok, Amount: amtA, Fee: sdk.ZeroInt(), Sender: "0x00000000000000000000000000000000000000aa",
		ReceiverChainId: "bsc", ExternalReceiver: "0x00000000000000000000000000000000000000bb", ExternalHeight: 5, TxHash: "h"}
	b := *a
	b.Amount = amtB
	vrt.Assume(a.Validate(chain) == nil && b.Validate(chain) == nil)
	vrt.Reach("c14.large")
	vrt.Assert("c14.ttc.amount", !bytes.Equal(a.Hash(), b.Hash()) || amtA.Equal(amtB))
}
