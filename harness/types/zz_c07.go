package types

// C07 — sign-bytes agree with the Ethereum contract. The reference side is written from Hub2.sol:
//   makeCheckpoint:   keccak256(abi.encode(_gravityId, "checkpoint", _valsetNonce, _validators, _powers))
//   submitBatch:      keccak256(abi.encode(gravityId, "transactionBatch", _amounts, _destinations, _fees, _batchNonce, _tokenContract, _batchTimeout))
//   submitLogicCall:  keccak256(abi.encode(gravityId, "logicCall", transferAmounts, transferTokenContracts, feeAmounts, feeTokenContracts,
//                                          logicContractAddress, payload, timeOut, invalidationId, invalidationNonce))
// with its own ABI descriptions (types in Solidity order) and the bytes32 method-name constants copied from the contract.

import (
	"bytes"
	"math/big"
	"strings"

	sdk "github.com/cosmos/cosmos-sdk/types"
	"github.com/ethereum/go-ethereum/accounts/abi"
	"github.com/ethereum/go-ethereum/common"
	"github.com/ethereum/go-ethereum/crypto"

	"github.com/MinterTeam/mhub2/module/x/zzverif/vrt"
)

const (
	zzAbiCheckpoint = `[{"name":"ref","type":"function","inputs":[{"type":"bytes32"},{"type":"bytes32"},{"type":"uint256"},{"type":"address[]"},{"type":"uint256[]"}]}]`
	zzAbiBatch      = `[{"name":"ref","type":"function","inputs":[{"type":"bytes32"},{"type":"bytes32"},{"type":"uint256[]"},{"type":"address[]"},{"type":"uint256[]"},{"type":"uint256"},{"type":"address"},{"type":"uint256"}]}]`
	zzAbiLogic      = `[{"name":"ref","type":"function","inputs":[{"type":"bytes32"},{"type":"bytes32"},{"type":"uint256[]"},{"type":"address[]"},{"type":"uint256[]"},{"type":"address[]"},{"type":"address"},{"type":"bytes"},{"type":"uint256"},{"type":"bytes32"},{"type":"uint256"}]}]`
	// bytes32 constants of Hub2.sol
	zzNameCheckpoint = "636865636b706f696e7400000000000000000000000000000000000000000000"
	zzNameBatch      = "7472616e73616374696f6e426174636800000000000000000000000000000000"
	zzNameLogic      = "6c6f67696343616c6c0000000000000000000000000000000000000000000000"
)

func zzB32(hexs string) (out [32]byte) {
	copy(out[:], common.Hex2Bytes(hexs))
	return
}

func zzRefDigest(abiJSON string, args ...interface{}) []byte {
	a, err := abi.JSON(strings.NewReader(abiJSON))
	if err != nil {
		panic(err)
	}
	enc, err := a.Pack("ref", args...)
	if err != nil {
		panic(err)
	}
	return crypto.Keccak256(enc[4:])
}

func zzGravityId() ([]byte, [32]byte) {
	n := []int{0, 1, 5, 32}[vrt.Choose("gid.len", 4)]
	gid := vrt.Bytes("gid", n)
	var fixed [32]byte
	copy(fixed[:], gid) // Solidity bytes32 of a shorter id: right-padded with zeros
	return gid, fixed
}

func zzU(x uint64) *big.Int { return new(big.Int).SetUint64(x) }

func ZZ_C07_SignerSet() {
	gid, g32 := zzGravityId()
	n := vrt.Len("members", 0, 2)
	tx := SignerSetTx{Nonce: vrt.Uint64Below("nonce", 1<<63), Height: vrt.Uint64("height"), Sequence: vrt.Uint64("seq")}
	var addrs []common.Address
	var powers []*big.Int
	for i := 0; i < n; i++ {
		a := common.BytesToAddress(vrt.Bytes("member"+string(rune('0'+i)), 20))
		p := vrt.Uint64Below("power"+string(rune('0'+i)), 1<<63)
		tx.Signers = append(tx.Signers, &ExternalSigner{Power: p, ExternalAddress: a.Hex()})
		addrs = append(addrs, a)
		powers = append(powers, zzU(p))
	}
	if addrs == nil {
		addrs, powers = []common.Address{}, []*big.Int{}
	}
	var got []byte
	if vrt.Panics(func() { got = tx.GetCheckpoint(gid) }) {
		vrt.Assert("c07.signerset.no-panic", false)
		return
	}
	vrt.Reach("c07.signerset")
	want := zzRefDigest(zzAbiCheckpoint, g32, zzB32(zzNameCheckpoint), zzU(tx.Nonce), addrs, powers)
	vrt.Assert("c07.signerset.digest", bytes.Equal(got, want))
}

func ZZ_C07_Batch() {
	gid, g32 := zzGravityId()
	n := vrt.Len("txs", 0, 2)
	tok := common.BytesToAddress(vrt.Bytes("token", 20))
	b := BatchTx{BatchNonce: vrt.Uint64Below("nonce", 1<<63), Timeout: vrt.Uint64Below("timeout", 1<<63), ExternalTokenId: tok.Hex(),
		Height: vrt.Uint64("height"), Sequence: vrt.Uint64("seq")}
	amounts, fees := []*big.Int{}, []*big.Int{}
	dests := []common.Address{}
	lim := new(big.Int).Lsh(big.NewInt(1), 255)
	for i := 0; i < n; i++ {
		s := string(rune('0' + i))
		amt := vrt.IntRange("amount"+s, big.NewInt(0), lim)
		fee := vrt.IntRange("fee"+s, big.NewInt(0), lim)
		d := common.BytesToAddress(vrt.Bytes("dest"+s, 20))
		b.Transactions = append(b.Transactions, &SendToExternal{Id: vrt.Uint64("id" + s), ExternalRecipient: d.Hex(),
			Token: ExternalToken{TokenId: 1, ExternalTokenId: tok.Hex(), Amount: sdk.NewIntFromBigInt(amt)},
			Fee:   ExternalToken{TokenId: 1, ExternalTokenId: tok.Hex(), Amount: sdk.NewIntFromBigInt(fee)},
			ValCommission: ExternalToken{TokenId: 1, ExternalTokenId: tok.Hex(), Amount: sdk.NewIntFromBigInt(vrt.IntRange("com"+s, big.NewInt(0), lim))}})
		amounts, fees, dests = append(amounts, amt), append(fees, fee), append(dests, d)
	}
	var got []byte
	if vrt.Panics(func() { got = b.GetCheckpoint(gid) }) {
		vrt.Assert("c07.batch.no-panic", false)
		return
	}
	vrt.Reach("c07.batch")
	want := zzRefDigest(zzAbiBatch, g32, zzB32(zzNameBatch), amounts, dests, fees, zzU(b.BatchNonce), tok, zzU(b.Timeout))
	vrt.Assert("c07.batch.digest", bytes.Equal(got, want))
}

func ZZ_C07_ContractCall() {
	gid, g32 := zzGravityId()
	logic := common.BytesToAddress(vrt.Bytes("logic", 20))
	scope := vrt.Bytes("scope", []int{0, 2, 32}[vrt.Choose("scope.len", 3)])
	payload := vrt.Bytes("payload", vrt.Len("payload.len", 0, 2))
	c := ContractCallTx{InvalidationNonce: vrt.Uint64Below("invnonce", 1<<63), InvalidationScope: scope, Address: logic.Hex(), Payload: payload,
		Timeout: vrt.Uint64Below("timeout", 1<<63), Height: vrt.Uint64("height")}
	lim := new(big.Int).Lsh(big.NewInt(1), 255)
	tAm, fAm := []*big.Int{}, []*big.Int{}
	tTok, fTok := []common.Address{}, []common.Address{}
	for i := 0; i < vrt.Len("tokens", 0, 1); i++ {
		a := vrt.IntRange("tamount", big.NewInt(0), lim)
		t := common.BytesToAddress(vrt.Bytes("ttoken", 20))
		c.Tokens = append(c.Tokens, ExternalToken{ExternalTokenId: t.Hex(), Amount: sdk.NewIntFromBigInt(a)})
		tAm, tTok = append(tAm, a), append(tTok, t)
	}
	for i := 0; i < vrt.Len("fees", 0, 1); i++ {
		a := vrt.IntRange("famount", big.NewInt(0), lim)
		t := common.BytesToAddress(vrt.Bytes("ftoken", 20))
		c.Fees = append(c.Fees, ExternalToken{ExternalTokenId: t.Hex(), Amount: sdk.NewIntFromBigInt(a)})
		fAm, fTok = append(fAm, a), append(fTok, t)
	}
	var got []byte
	if vrt.Panics(func() { got = c.GetCheckpoint(gid) }) {
		vrt.Assert("c07.call.no-panic", false)
		return
	}
	vrt.Reach("c07.call")
	var inv [32]byte
	copy(inv[:], scope)
	pl := make([]byte, len(payload))
	copy(pl, payload)
	want := zzRefDigest(zzAbiLogic, g32, zzB32(zzNameLogic), tAm, tTok, fAm, fTok, logic, pl, zzU(c.Timeout), inv, zzU(c.InvalidationNonce))
	vrt.Assert("c07.call.digest", bytes.Equal(got, want))
}

// ZZ_C07_GravityIdTooLong: ids longer than 32 bytes cannot be expressed as the contract's bytes32 (the hub refuses: panic).
func ZZ_C07_GravityIdTooLong() {
	gid := vrt.Bytes("gid", 33)
	tx := SignerSetTx{Nonce: 1}
	p := vrt.Panics(func() { tx.GetCheckpoint(gid) })
	vrt.Reach("c07.gid33")
	vrt.Assert("c07.gid-longer-than-32-refused", p)
}

const zzPrefix = "\x19Ethereum Signed Message:\n32"

// ZZ_C07_Signature: ValidateEthereumSignature accepts exactly recover(keccak(prefix || h), norm(sig)) == address.
func ZZ_C07_Signature() {
	h := vrt.Bytes("hash", 32)
	n := []int{64, 65, 66}[vrt.Choose("sig.len", 3)]
	sig := vrt.Bytes("sig", n)
	addr := common.BytesToAddress(vrt.Bytes("addr", 20))
	err := ValidateEthereumSignature(h, sig, addr)
	vrt.Reach("c07.sig")
	if n < 65 {
		vrt.Assert("c07.sig.short-rejected", err != nil)
		return
	}
	norm := make([]byte, n)
	copy(norm, sig)
	if norm[64] == 27 || norm[64] == 28 {
		norm[64] -= 27
	}
	pub, rerr := crypto.SigToPub(crypto.Keccak256(append([]byte(zzPrefix), h...)), norm)
	ok := rerr == nil && crypto.PubkeyToAddress(*pub) == addr
	vrt.Assert("c07.sig.accepts-iff-recovers-address", (err == nil) == ok)
}
