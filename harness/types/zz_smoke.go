package types

import (
	"math/big"

	"github.com/MinterTeam/mhub2/module/x/zzverif/vrt"
	sdk "github.com/cosmos/cosmos-sdk/types"
)

// ZZ_Smoke_Arith: engine smoke test on plain integer code.
func ZZ_Smoke_Arith() {
	x := vrt.Uint64Below("x", 1000)
	y := vrt.Uint64Below("y", 1000)
	s := x + y
	vrt.Reach("smoke.arith")
	vrt.Assert("smoke.sum.bound", s < 2000)
	vrt.Assert("smoke.sum.wrong", s < 1500) // must be violated
	if x > y {
		vrt.Assert("smoke.branch", x-y >= 1)
	}
	a := new(big.Int).Mul(vrt.IntRange("a", big.NewInt(0), big.NewInt(1000)), big.NewInt(3))
	vrt.Assert("smoke.big", a.Cmp(big.NewInt(3001)) < 0)
}

// ZZ_Smoke_SdkInt: sdk.Int arithmetic from SSA over the math/big model.
func ZZ_Smoke_SdkInt() {
	lim := new(big.Int).Lsh(big.NewInt(1), 255)
	a := sdk.NewIntFromBigInt(vrt.IntRange("a", big.NewInt(0), lim))
	b := sdk.NewIntFromBigInt(vrt.IntRange("b", big.NewInt(0), lim))
	var c sdk.Int
	p := vrt.Panics(func() { c = a.Add(b) })
	vrt.Reach("smoke.sdkint")
	if !p {
		vrt.Assert("smoke.sdkint.add", c.BigInt().Cmp(new(big.Int).Add(a.BigInt(), b.BigInt())) == 0)
		vrt.Assert("smoke.sdkint.gte", c.GTE(a))
	}
}
