// Package vrt is the harness runtime. Under the symbolic executor (gosym) every function in this
// file is intercepted by name; the bodies below are the native implementations used when a
// counterexample or witness is replayed against the compiled code (values come from the replay file).
package vrt

import (
	"encoding/json"
	"fmt"
	"math/big"
	"os"
)

type replayFile struct {
	Values  map[string]string `json:"values"`
	Choices map[string]int    `json:"choices"`
	Tier    string            `json:"tier"`
}

// Thorough reports whether the thorough tier's bounds apply.
func Thorough() bool { return replay.Tier == "thorough" }

var (
	replay    replayFile
	Failed    []string
	Reached   []string
	AssumeBad []string
)

// LoadReplay reads the assignment written by the engine.
func LoadReplay(path string) error {
	data, err := os.ReadFile(path)
	if err != nil {
		return err
	}
	replay = replayFile{}
	Failed, Reached, AssumeBad = nil, nil, nil
	return json.Unmarshal(data, &replay)
}

func val(name string) *big.Int {
	s, ok := replay.Values[name]
	if !ok {
		return new(big.Int)
	}
	if s == "true" {
		return big.NewInt(1)
	}
	if s == "false" {
		return new(big.Int)
	}
	v, ok := new(big.Int).SetString(s, 10)
	if !ok {
		panic("vrt: bad replay value for " + name + ": " + s)
	}
	return v
}

// Int returns an arbitrary integer.
func Int(name string) *big.Int { return val(name) }

// IntRange returns an arbitrary integer in [lo, hi].
func IntRange(name string, lo, hi *big.Int) *big.Int { return val(name) }

func Uint64(name string) uint64                    { return val(name).Uint64() }
func Uint64Below(name string, bound uint64) uint64 { return val(name).Uint64() }
func Int64(name string) int64                      { return val(name).Int64() }
func Int64Range(name string, lo, hi int64) int64   { return val(name).Int64() }
func Byte(name string) byte                        { return byte(val(name).Uint64()) }
func Bool(name string) bool                        { return val(name).Sign() != 0 }

// Bytes returns n arbitrary bytes.
func Bytes(name string, n int) []byte {
	out := make([]byte, n)
	for i := range out {
		out[i] = byte(val(fmt.Sprintf("%s[%d]", name, i)).Uint64())
	}
	return out
}

// Choose returns an arbitrary value in 0..n-1 (the engine forks n ways).
func Choose(name string, n int) int { return replay.Choices[name] }

// Len returns an arbitrary value in lo..hi (forked).
func Len(name string, lo, hi int) int {
	if v, ok := replay.Choices[name]; ok {
		return v
	}
	return lo
}

// Assume drops the path if cond is false.
func Assume(cond bool) {
	if !cond {
		AssumeBad = append(AssumeBad, "assumption violated during replay")
		panic(assumeFailed{})
	}
}

type assumeFailed struct{}

// Assert states obligation id.
func Assert(id string, cond bool) {
	if !cond {
		Failed = append(Failed, id)
	}
}

// Check states obligation id like Assert, but the execution continues as if nothing had been asserted
// (for obligations that are independent of each other, e.g. one per store prefix).
func Check(id string, cond bool) { Assert(id, cond) }

// Reach marks a point that must be reachable (vacuity witness).
func Reach(id string) { Reached = append(Reached, id) }

// Symbolic reports whether the code runs under the symbolic executor.
func Symbolic() bool { return false }

// Panics runs f and reports whether it panicked (state is not rolled back).
func Panics(f func()) (panicked bool) {
	defer func() {
		if r := recover(); r != nil {
			if _, ok := r.(assumeFailed); ok {
				panic(r)
			}
			panicked = true
		}
	}()
	f()
	return false
}

// Note records a modelling assumption in the evidence.
func Note(s string) {}
