package vrt

import (
	"bytes"
	"io"

	storetypes "github.com/cosmos/cosmos-sdk/store/types"
)

// KV is one store entry.
type KV struct {
	K, V []byte
}

// Store is a plain KVStore: an unsorted list of entries, sorted on iteration.
// It is ordinary Go: the symbolic executor runs it like any other code, the replay compiles it.
type Store struct {
	E []KV
}

var _ storetypes.KVStore = (*Store)(nil)

func (s *Store) GetStoreType() storetypes.StoreType { return storetypes.StoreTypeDB }
func (s *Store) CacheWrap() storetypes.CacheWrap    { panic("vrt.Store: CacheWrap not supported") }
func (s *Store) CacheWrapWithTrace(io.Writer, storetypes.TraceContext) storetypes.CacheWrap {
	panic("vrt.Store: CacheWrapWithTrace not supported")
}
func (s *Store) CacheWrapWithListeners(storetypes.StoreKey, []storetypes.WriteListener) storetypes.CacheWrap {
	panic("vrt.Store: CacheWrapWithListeners not supported")
}

func (s *Store) find(key []byte) int {
	for i := range s.E {
		if bytes.Equal(s.E[i].K, key) {
			return i
		}
	}
	return -1
}

func (s *Store) Get(key []byte) []byte {
	if len(key) == 0 {
		panic("key is nil")
	}
	if i := s.find(key); i >= 0 {
		return s.E[i].V
	}
	return nil
}

func (s *Store) Has(key []byte) bool {
	if len(key) == 0 {
		panic("key is nil")
	}
	return s.find(key) >= 0
}

func (s *Store) Set(key, value []byte) {
	if len(key) == 0 {
		panic("key is nil")
	}
	if value == nil {
		panic("value is nil")
	}
	if i := s.find(key); i >= 0 {
		s.E[i].V = value
		return
	}
	s.E = append(s.E, KV{K: key, V: value})
}

func (s *Store) Delete(key []byte) {
	if len(key) == 0 {
		panic("key is nil")
	}
	if i := s.find(key); i >= 0 {
		ne := make([]KV, 0, len(s.E)-1)
		ne = append(ne, s.E[:i]...)
		ne = append(ne, s.E[i+1:]...)
		s.E = ne
	}
}

// Clone copies the entry list (keys and values are never mutated in place).
func (s *Store) Clone() *Store {
	c := &Store{E: make([]KV, len(s.E))}
	copy(c.E, s.E)
	return c
}

func (s *Store) Iterator(start, end []byte) storetypes.Iterator {
	return s.iter(start, end, true)
}

func (s *Store) ReverseIterator(start, end []byte) storetypes.Iterator {
	return s.iter(start, end, false)
}

// PrefixIter enumerates the entries whose key starts with prefix (keys are returned without the prefix).
// It is what prefix.Store.Iterator(nil, nil) computes: [prefix, PrefixEndBytes(prefix)) is exactly that key set.
func (s *Store) PrefixIter(prefix []byte, asc bool) *Iter {
	var sel []KV
	for _, e := range s.E {
		if bytes.HasPrefix(e.K, prefix) {
			sel = append(sel, e)
		}
	}
	it := s.sorted(sel, asc)
	it.strip = len(prefix)
	it.skipDeleted()
	return it
}

func (s *Store) iter(start, end []byte, asc bool) *Iter {
	var sel []KV
	for _, e := range s.E {
		if start != nil && bytes.Compare(e.K, start) < 0 {
			continue
		}
		if end != nil && bytes.Compare(e.K, end) >= 0 {
			continue
		}
		sel = append(sel, e)
	}
	it := s.sorted(sel, asc)
	it.start, it.end = start, end
	it.skipDeleted()
	return it
}

func (s *Store) sorted(sel []KV, asc bool) *Iter {
	// insertion sort by key
	for i := 1; i < len(sel); i++ {
		for j := i; j > 0; j-- {
			c := bytes.Compare(sel[j-1].K, sel[j].K)
			if (asc && c > 0) || (!asc && c < 0) {
				sel[j-1], sel[j] = sel[j], sel[j-1]
			} else {
				break
			}
		}
	}
	return &Iter{s: s, items: sel}
}

// Iter enumerates the entries that matched at creation time, in key order, skipping entries deleted since.
type Iter struct {
	s          *Store
	items      []KV
	pos        int
	start, end []byte
	strip      int
}

func (it *Iter) skipDeleted() {
	for it.pos < len(it.items) && it.s.find(it.items[it.pos].K) < 0 {
		it.pos++
	}
}

func (it *Iter) Domain() (start []byte, end []byte) { return it.start, it.end }
func (it *Iter) Valid() bool                        { return it.pos < len(it.items) }
func (it *Iter) Next() {
	if !it.Valid() {
		panic("iterator is invalid")
	}
	it.pos++
	it.skipDeleted()
}
func (it *Iter) Key() []byte {
	if !it.Valid() {
		panic("iterator is invalid")
	}
	return it.items[it.pos].K[it.strip:]
}
func (it *Iter) Value() []byte {
	if !it.Valid() {
		panic("iterator is invalid")
	}
	return it.items[it.pos].V
}
func (it *Iter) Error() error { return nil }
func (it *Iter) Close() error { return nil }

// MultiStore maps store keys to Stores; CacheMultiStore gives a copy that is written back by Write.
type MultiStore struct {
	Keys   []storetypes.StoreKey
	Stores []*Store
	parent *MultiStore
	// Att: state of environment stubs that lives "in the multistore" of a real application (the bank balances):
	// it is branched by CacheMultiStore and written back by Write, like the KV stores. nil = same as the parent's.
	Att AttState
}

// AttState is stub state that follows the store's cache/commit discipline.
type AttState interface{ CloneAtt() AttState }

// AttGet returns the attached state visible at this layer.
func (m *MultiStore) AttGet() AttState {
	for x := m; x != nil; x = x.parent {
		if x.Att != nil {
			return x.Att
		}
	}
	return nil
}

// AttForWrite returns this layer's own copy of the attached state (copy-on-write).
func (m *MultiStore) AttForWrite() AttState {
	if m.Att == nil {
		if cur := m.AttGet(); cur != nil {
			m.Att = cur.CloneAtt()
		}
	}
	return m.Att
}

var _ storetypes.CacheMultiStore = (*MultiStore)(nil)

func NewMultiStore() *MultiStore { return &MultiStore{} }

func (m *MultiStore) GetStoreType() storetypes.StoreType { return storetypes.StoreTypeMulti }
func (m *MultiStore) CacheWrap() storetypes.CacheWrap    { return m.CacheMultiStore() }
func (m *MultiStore) CacheWrapWithTrace(io.Writer, storetypes.TraceContext) storetypes.CacheWrap {
	return m.CacheMultiStore()
}
func (m *MultiStore) CacheWrapWithListeners(storetypes.StoreKey, []storetypes.WriteListener) storetypes.CacheWrap {
	return m.CacheMultiStore()
}

func (m *MultiStore) CacheMultiStore() storetypes.CacheMultiStore {
	c := &MultiStore{parent: m}
	for i, k := range m.Keys {
		c.Keys = append(c.Keys, k)
		c.Stores = append(c.Stores, m.Stores[i].Clone())
	}
	return c
}

func (m *MultiStore) CacheMultiStoreWithVersion(int64) (storetypes.CacheMultiStore, error) {
	panic("vrt.MultiStore: versions not supported")
}

// Write copies the entries back into the parent.
func (m *MultiStore) Write() {
	if m.parent == nil {
		return
	}
	for i, k := range m.Keys {
		m.parent.KV(k).E = m.Stores[i].E
	}
	if m.Att != nil {
		m.parent.Att = m.Att
		m.Att = nil
	}
}

// KV returns (creating if needed) the store mounted at key.
func (m *MultiStore) KV(key storetypes.StoreKey) *Store {
	for i, k := range m.Keys {
		if k == key {
			return m.Stores[i]
		}
	}
	s := &Store{}
	m.Keys = append(m.Keys, key)
	m.Stores = append(m.Stores, s)
	return s
}

func (m *MultiStore) GetStore(key storetypes.StoreKey) storetypes.Store     { return m.KV(key) }
func (m *MultiStore) GetKVStore(key storetypes.StoreKey) storetypes.KVStore { return m.KV(key) }
func (m *MultiStore) TracingEnabled() bool                                  { return false }
func (m *MultiStore) SetTracer(io.Writer) storetypes.MultiStore             { return m }
func (m *MultiStore) SetTracingContext(storetypes.TraceContext) storetypes.MultiStore {
	return m
}
func (m *MultiStore) ListeningEnabled(storetypes.StoreKey) bool                    { return false }
func (m *MultiStore) AddListeners(storetypes.StoreKey, []storetypes.WriteListener) {}
