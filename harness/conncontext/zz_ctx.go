package context

// Harness support for C20 (cursor half): access to the unexported cursor of Context, and the environment stubs
// for the status file (os.ReadFile / os.WriteFile) used when the connector code is executed symbolically.

import (
	"encoding/json"
	"errors"
	"os"
)

// ZZCursor is the persisted cursor.
type ZZCursor struct{ Block, EventNonce, BatchNonce, ValsetNonce uint64 }

func (c *Context) ZZCursor() ZZCursor {
	return ZZCursor{c.status.LastCheckedMinterBlock, c.status.LastEventNonce, c.status.LastBatchNonce, c.status.LastValsetNonce}
}

// ZZDecodeCursor decodes a status file.
func ZZDecodeCursor(data []byte) (ZZCursor, bool) {
	var s statusData
	if err := json.Unmarshal(data, &s); err != nil {
		return ZZCursor{}, false
	}
	return ZZCursor{s.LastCheckedMinterBlock, s.LastEventNonce, s.LastBatchNonce, s.LastValsetNonce}, true
}

// ZZEncodeCursor is what Commit writes for this cursor.
func ZZEncodeCursor(c ZZCursor) []byte {
	data, _ := json.Marshal(statusData{c.Block, c.EventNonce, c.BatchNonce, c.ValsetNonce})
	return data
}

// the status file of the symbolic run (one file; the path is not interpreted)
var zzFile []byte
var zzFileExists bool
var zzWrites int

func ZZStubWriteFile(name string, data []byte, perm os.FileMode) error {
	zzFile, zzFileExists = data, true
	zzWrites++
	return nil
}

func ZZStubReadFile(name string) ([]byte, error) {
	if !zzFileExists {
		return nil, errors.New("open: no such file")
	}
	return zzFile, nil
}

// ZZSetFile puts content into the symbolic run's status file.
func ZZSetFile(data []byte) { zzFile, zzFileExists = data, true }
