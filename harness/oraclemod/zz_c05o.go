package oracle

// C05 (oracle module) — the real x/oracle EndBlocker after arbitrary claims of one epoch never panics.

import (
	sdk "github.com/cosmos/cosmos-sdk/types"

	"github.com/MinterTeam/mhub2/module/x/oracle/keeper"
	"github.com/MinterTeam/mhub2/module/x/zzverif/vrt"
)

func ZZ_C05_OracleEndBlock() {
	height := int64(vrt.Uint64Below("height", 1<<40))
	env := keeper.ZZNewOracleEnv(height)
	E := 1 + vrt.Uint64Below("epoch", 1<<56)
	env.SetEpoch(E)
	nv := 3
	var opers []sdk.ValAddress
	for i := 0; i < nv; i++ {
		s := string(rune('0' + i))
		oper := sdk.ValAddress(vrt.Bytes("oper"+s, 20))
		for _, o := range opers {
			vrt.Assume(!o.Equals(oper))
		}
		opers = append(opers, oper)
		bonded := vrt.Bool("bonded" + s)
		p := int64(vrt.Uint64Below("power"+s, 12))
		if bonded {
			vrt.Assume(p >= 1) // x/staking: a bonded validator has positive consensus power
		}
		env.AddValidator(oper, p, bonded)
	}
	nClaims := 2 // both tiers (a third claim multiplies the 18 000 paths of the quick tier by about ten)
	for c := 0; c < nClaims; c++ {
		s := string(rune('0' + c))
		if !vrt.Bool("claim" + s) {
			continue
		}
		ep := E
		if vrt.Bool("stale" + s) {
			ep = E - 1
		}
		_ = env.Claim(vrt.Choose("kind"+s, 2), vrt.Choose("claimer"+s, nv), ep, vrt.Choose("variant"+s, 2)) // a failing message is rolled back
	}
	vrt.Reach("c05.oracle.endblock")
	EndBlocker(env.Ctx(), env.K())
	vrt.Reach("c05.oracle.endblock.done")
	if height%5 == 0 {
		vrt.Assert("c05.oracle.epoch-advances-every-fifth-block", env.Epoch() == E+1)
	} else {
		vrt.Assert("c05.oracle.no-processing-otherwise", env.Epoch() == E && env.Applied() == 0)
	}
}
