package tx_committer

// Harness support for C20 (relay): the claims handed to the transaction committer are recorded instead of being
// signed and broadcast. Symbolic run: MarshalMsgs and (*Server).CommitTx are replaced by the two stubs below.
// Native replay: the real MarshalMsgs / CommitTx / UnmarshalMsgs run and a drain loop stands in for Server.run.

import (
	"context"
	"time"

	sdk "github.com/cosmos/cosmos-sdk/types"
)

var ZZMsgs []sdk.Msg // every message committed so far, in order
var ZZCommits int
var zzPending []sdk.Msg

func ZZStubMarshalMsgs(msgs []sdk.Msg) [][]byte {
	zzPending = msgs
	return nil
}

func ZZStubCommitTx(s *Server, _ context.Context, req *CommitTxRequest) (*CommitTxReply, error) {
	ZZMsgs = append(ZZMsgs, zzPending...)
	zzPending = nil
	ZZCommits++
	return &CommitTxReply{Code: 0}, nil
}

// ZZNewServer: a committer without network. drain=true starts the loop that completes queued jobs (native replay).
func ZZNewServer(drain bool) *Server {
	ZZMsgs, ZZCommits, zzPending = nil, 0, nil
	s := &Server{}
	if drain {
		go func() {
			for {
				time.Sleep(2 * time.Millisecond)
				s.lock.Lock()
				if len(s.jobs) > 0 {
					for _, j := range s.jobs {
						ZZMsgs = append(ZZMsgs, j.msg)
					}
					ZZCommits++
					for _, j := range s.jobs {
						j.callback()
					}
					s.jobs = []job{}
				}
				s.lock.Unlock()
			}
		}()
	}
	return s
}
