package main

// C20 — relayMinterEvents numbers the bridge events of the scanned blocks consecutively from the cursor, in history
// order, hands exactly those claims to the committer, and persists a cursor that is consistent with the history.

import (
	"os"
	"path/filepath"

	sdk "github.com/cosmos/cosmos-sdk/types"
	"github.com/tendermint/tendermint/libs/log"

	"github.com/MinterTeam/mhub2/minter-connector/config"
	"github.com/MinterTeam/mhub2/minter-connector/context"
	"github.com/MinterTeam/mhub2/minter-connector/minter"
	"github.com/MinterTeam/mhub2/minter-connector/tx_committer"
	"github.com/MinterTeam/mhub2/module/x/mhub2/types"
	"github.com/MinterTeam/mhub2/module/x/zzverif/vrt"
)

func ZZ_C20_Relay() {
	nBlocks, maxTx, nKinds := 2, 2, 7
	if vrt.Thorough() {
		// four kinds: unrelated, valid deposit, batch, valset update
		if vrt.Choose("shape", 2) == 0 {
			nBlocks, maxTx, nKinds = 2, 3, 4
		} else {
			nBlocks, maxTx, nKinds = 3, 2, 4
		}
	}
	s := minter.ZZBuildScript(nBlocks, maxTx, nKinds)
	start := context.ZZCursor{Block: s.First, EventNonce: 1 + vrt.Uint64Below("start.eventNonce", 1<<56),
		BatchNonce: vrt.Uint64Below("start.batchNonce", 1<<56), ValsetNonce: vrt.Uint64Below("start.valsetNonce", 1<<56)}
	path := minter.ZZStatusPath()
	if !vrt.Symbolic() {
		defer os.RemoveAll(filepath.Dir(path))
	}
	orc := sdk.AccAddress(append(make([]byte, 19), 7))
	ctx := context.Context{MinterMultisigAddr: minter.ZZMultisig, MinterClient: s.Client(), Logger: log.NewNopLogger(),
		TxCommitter: tx_committer.ZZNewServer(!vrt.Symbolic()), OrcAddress: orc}
	ctx.LoadStatus(path, config.MinterConfig{StartBlock: start.Block, StartEventNonce: start.EventNonce, StartBatchNonce: start.BatchNonce, StartValsetNonce: start.ValsetNonce})

	out := relayMinterEvents(ctx)
	vrt.Reach("c20.relay.returned")
	got := out.ZZCursor()
	vrt.Assert("c20.relay.scanned-to-the-tip", got.Block == s.Latest())
	want := s.Expect(start, s.Latest())
	vrt.Check("c20.relay.cursor-consistent", got == want)
	data, written := minter.ZZReadStatus(path)
	if written {
		onDisk, ok := context.ZZDecodeCursor(data)
		vrt.Assert("c20.relay.persisted-is-returned", ok && onDisk == got)
	} else {
		vrt.Assert("c20.relay.nothing-persisted-means-no-blocks", got == start)
	}
	// the claims: exactly the bridge events, in history order, numbered consecutively from the cursor
	evs := s.Events(s.Latest())
	msgs := tx_committer.ZZMsgs
	vrt.Assert("c20.relay.one-claim-per-bridge-event", len(msgs) == len(evs))
	if len(msgs) != len(evs) {
		return
	}
	if len(evs) > 0 {
		vrt.Reach("c20.relay.claims")
		vrt.Assert("c20.relay.one-commit", tx_committer.ZZCommits == 1)
	} else {
		vrt.Assert("c20.relay.no-commit-without-events", tx_committer.ZZCommits == 0)
	}
	batchNonce := start.BatchNonce
	for i, e := range evs {
		m, ok := msgs[i].(*types.MsgSubmitExternalEvent)
		vrt.Assert("c20.relay.claim-is-an-event-claim", ok && m.ChainId == "minter" && m.Signer == orc.String())
		if !ok {
			return
		}
		ev, err := types.UnpackEvent(m.Event)
		vrt.Assert("c20.relay.claim-unpacks", err == nil)
		if err != nil {
			return
		}
		vrt.Check("c20.relay.nonce-in-history-order", ev.GetEventNonce() == start.EventNonce+uint64(i))
		vrt.Check("c20.relay.height", ev.GetExternalHeight() == e.Height)
		switch e.Kind {
		case minter.ZZKBatch:
			b, isB := ev.(*types.BatchExecutedEvent)
			vrt.Check("c20.relay.kind", isB)
			if isB {
				vrt.Check("c20.relay.batch-nonce", b.BatchNonce == batchNonce && b.ExternalCoinId == "3")
			}
			batchNonce++
		case minter.ZZKValset:
			v, isV := ev.(*types.SignerSetTxExecutedEvent)
			vrt.Check("c20.relay.kind", isV)
			if isV {
				vrt.Check("c20.relay.valset-nonce", v.SignerSetTxNonce == e.ValsetNonce && len(v.Members) == 2)
			}
		default:
			d, isD := ev.(*types.TransferToChainEvent)
			vrt.Check("c20.relay.kind", isD)
			if isD {
				vrt.Check("c20.relay.deposit-fields", d.Amount.Equal(sdk.NewInt(1000)) && d.Fee.Equal(sdk.NewInt(1)) && d.ReceiverChainId == "ethereum" && d.ExternalCoinId == "0")
			}
		}
	}
}

// ZZ_C20_RelayPaging: the main loop's relayMinterEvents called repeatedly (as main does) while the connector is more
// than a page (100 blocks) behind: after every pass the cursor is consistent with the blocks at or below it, and at
// the tip every bridge event has been claimed once, numbered in history order.
func ZZ_C20_RelayPaging() {
	gap, tail := minter.ZZGapChoice()
	s := minter.ZZBuildScriptGap(2, 1, 3, gap, tail)
	start := context.ZZCursor{Block: s.First, EventNonce: 1 + vrt.Uint64Below("start.eventNonce", 1<<56),
		BatchNonce: vrt.Uint64Below("start.batchNonce", 1<<56), ValsetNonce: vrt.Uint64Below("start.valsetNonce", 1<<56)}
	path := minter.ZZStatusPath()
	if !vrt.Symbolic() {
		defer os.RemoveAll(filepath.Dir(path))
	}
	orc := sdk.AccAddress(append(make([]byte, 19), 7))
	ctx := context.Context{MinterMultisigAddr: minter.ZZMultisig, MinterClient: s.Client(), Logger: log.NewNopLogger(),
		TxCommitter: tx_committer.ZZNewServer(!vrt.Symbolic()), OrcAddress: orc}
	ctx.LoadStatus(path, config.MinterConfig{StartBlock: start.Block, StartEventNonce: start.EventNonce, StartBatchNonce: start.BatchNonce, StartValsetNonce: start.ValsetNonce})
	for pass := 0; pass < 6 && ctx.ZZCursor().Block < s.Latest(); pass++ {
		before := ctx.ZZCursor().Block
		ctx = relayMinterEvents(ctx)
		got := ctx.ZZCursor()
		vrt.Assert("c20.paging.relay.progress", got.Block > before && got.Block <= s.Latest())
		if got.Block <= before || got.Block > s.Latest() {
			return
		}
		vrt.Check("c20.paging.relay.cursor-consistent-after-every-pass", got == s.Expect(start, got.Block))
		vrt.Check("c20.paging.relay.claims-so-far", len(tx_committer.ZZMsgs) == len(s.Events(got.Block)))
	}
	vrt.Assert("c20.paging.relay.reaches-the-tip", ctx.ZZCursor().Block == s.Latest())
	vrt.Reach("c20.paging.relay.tip")
	evs := s.Events(s.Latest())
	msgs := tx_committer.ZZMsgs
	if len(msgs) != len(evs) {
		return
	}
	for i := range evs {
		m, ok := msgs[i].(*types.MsgSubmitExternalEvent)
		if !ok {
			vrt.Check("c20.paging.relay.nonce-in-history-order", false)
			return
		}
		ev, err := types.UnpackEvent(m.Event)
		vrt.Check("c20.paging.relay.nonce-in-history-order", err == nil && ev.GetEventNonce() == start.EventNonce+uint64(i) && ev.GetExternalHeight() == evs[i].Height)
	}
}
