package command

// C20 (second half) — a Minter deposit becomes a claim only if its command is well formed:
// a valid recipient for the target chain and a non-negative decimal integer fee below amount - 1%.

import (
	"math/big"

	sdk "github.com/cosmos/cosmos-sdk/types"
	"github.com/ethereum/go-ethereum/common"

	"github.com/MinterTeam/mhub2/module/x/zzverif/vrt"
)

func ZZ_C20_Command() {
	cmd := &Command{Type: []string{TypeSendToEth, TypeSendToBsc, TypeSendToHub, "other"}[vrt.Choose("type", 4)]}
	rk := vrt.Choose("recipient.kind", 4)
	switch rk {
	case 0:
		cmd.Recipient = common.BytesToAddress(vrt.Bytes("rcpt.eth", 20)).Hex()
	case 1:
		cmd.Recipient = sdk.AccAddress(vrt.Bytes("rcpt.hub", 20)).String()
	case 2:
		cmd.Recipient = string(vrt.Bytes("rcpt.raw40", 40)) // 40 arbitrary characters
	case 3:
		cmd.Recipient = "garbage"
	}
	// fee text: 1-3 arbitrary bytes
	feeText := vrt.Bytes("fee", vrt.Len("fee.len", 1, 3))
	for _, c := range feeText {
		vrt.Assume(c != '_') // digit separators of base-0 numerals are outside the bound
	}
	vrt.Assume(!(cmd.Type == TypeSendToHub && rk == 2)) // an arbitrary 40-character string as a bech32 address: not modelled
	cmd.Fee = string(feeText)
	amount := vrt.IntRange("amount", big.NewInt(0), new(big.Int).Lsh(big.NewInt(1), 255))
	err := cmd.ValidateAndComplete(sdk.NewIntFromBigInt(amount))
	vrt.Reach("c20.command")
	if err != nil {
		return
	}
	vrt.Reach("c20.command.accepted")
	switch cmd.Type {
	case TypeSendToEth, TypeSendToBsc:
		vrt.Assert("c20.command.recipient-valid", rk == 0 || rk == 2)
		vrt.Assert("c20.command.recipient-normalised", common.IsHexAddress(cmd.Recipient) && len(cmd.Recipient) == 42)
	case TypeSendToHub:
		vrt.Assert("c20.command.recipient-valid", rk == 1)
	default:
		vrt.Assert("c20.command.known-type", false)
	}
	// the fee the claim will carry (CreateClaims parses the same text with sdk.NewIntFromString)
	fee, ok := sdk.NewIntFromString(cmd.Fee)
	vrt.Assert("c20.command.fee-is-an-integer", ok)
	if !ok {
		return
	}
	if feeText[0] == '-' {
		vrt.Assert("c20.command.fee-non-negative[leading minus sign]", !fee.IsNegative())
	} else {
		vrt.Assert("c20.command.fee-non-negative", !fee.IsNegative())
	}
	limit := new(big.Int).Sub(amount, new(big.Int).Quo(amount, big.NewInt(100)))
	vrt.Assert("c20.command.fee-below-amount-less-1-percent", fee.BigInt().Cmp(limit) < 0)
}
