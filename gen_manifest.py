#!/usr/bin/env python3
# Regenerates MANIFEST.json from checks.json + the per-property texts below.
import json
checks = json.load(open('/verif/checks.json'))
texts = json.load(open('/verif/manifest_texts.json'))
props = [json.loads(l)['id'] for l in open('/verif/properties.jsonl')]
m = {
 "version": 1,
 "setup_cmd": "./setup.sh",
 "hooks": {"guard": "verif", "enable": "no source hooks are needed: harnesses are injected as overlay files (go/packages Overlay, go test -overlay); the tag is reserved",
           "baseline_off_cmd": "for m in $(cat /w/out/gomods.txt); do MF=$(cd /repo/$m && . /w/out/goenv.sh && gomodflag); (cd /repo/$m && go test $MF -json -vet=off -count=1 -timeout 25m ./...); done",
           "source_commits": [], "add_only": True},
 "engines": [{"name": "gosym", "path": "engine/", "serves_properties": sorted(checks.keys()),
              "kind_free_text": "bounded symbolic executor for Go SSA (golang.org/x/tools/go/ssa) with an SMT back end (z3); harnesses are in-package Go functions injected by overlay; counterexamples and witnesses are replayed natively with go test -overlay"}],
 "checks": [], "not_applicable": [],
 "notes": "Every check: ./check <id> --tier quick|thorough. Exit 0 = all obligations discharged (or matched by known_findings.json), 1 = VIOLATION (replay-confirmed), 2 = ERROR (inconclusive/engine/vacuity). See DESIGN.md."
}
for pid in props:
    if pid in checks:
        t = texts[pid]
        m["checks"].append({
          "property_id": pid,
          "quick_cmd": f"./check {pid} --tier quick",
          "thorough_cmd": f"./check {pid} --tier thorough",
          "evidence_file": f"/verif/evidence/{pid}.json",
          "replay_cmd_template": f"./check {pid} --replay {{path}}",
          "engine": "gosym",
          "level_claimed": {"category": "model_checking", "text": t["level"], "design_ref": t.get("ref", "DESIGN.md §4")},
          "level_note": t["note"],
          "technique": t.get("technique", "bounded symbolic execution of the Go SSA of the real code + SMT (z3) per-path obligations; native replay of witnesses/counterexamples"),
        })
    else:
        m["not_applicable"].append({"property_id": pid, "reason": texts.get(pid, {}).get("na", "no check built yet with this technique (work in progress)")})
json.dump(m, open('/verif/MANIFEST.json', 'w'), indent=1)
print("checks:", len(m["checks"]), "n/a:", len(m["not_applicable"]))
