#!/usr/bin/env python3
# usage: save_seeded.py <name> <property> <caught_by> <needs> <result-note>
import sys, os, shutil, json
name, prop, caught, needs, note = sys.argv[1:6]
src = f'/tmp/mut/{name}/_out'
dst = f'/verif/seeded/{name}'
os.makedirs(dst, exist_ok=True)
shutil.copy(f'{src}/patch.diff', f'{dst}/patch.diff')
demo = open(f'{src}/demo_path.txt').read().strip()
shutil.copy(f'/tmp/mut/{name}/{demo}', f'{dst}/' + os.path.basename(demo))
if os.path.exists(f'{src}/notes.md'):
    shutil.copy(f'{src}/notes.md', f'{dst}/notes.md')
json.dump({"breaks_property": prop, "demonstration": os.path.basename(demo), "demonstration_path_in_repo": demo,
  "needs_to_manifest": needs,
  "confirmed": "existing suite (go test ./x/...) passes with the change; the demonstration fails with the change and passes without it (re-run by us with /tmp/mut/confirm.sh in the agent's worktree)",
  "checks_run": f"git -C /repo apply patch.diff; ./check {prop} --tier quick; git -C /repo checkout -- .",
  "caught_by": caught, "result": note}, open(f'{dst}/meta.json','w'), indent=1)
print('saved', dst)
