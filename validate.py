#!/opt/veriftools/pyvenv/bin/python
import json, jsonschema, glob, sys
jsonschema.validate(json.load(open('/verif/MANIFEST.json')), json.load(open('/root/.vp/MANIFEST.schema.json')))
print('manifest valid')
for f in sorted(glob.glob('/verif/evidence/*.json')):
    jsonschema.validate(json.load(open(f)), json.load(open('/root/.vp/EVIDENCE.schema.json')))
    print(f, 'valid')
