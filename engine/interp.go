package main

import (
	"fmt"
	"go/constant"
	"go/token"
	"go/types"
	"math/big"
	"strings"

	"golang.org/x/tools/go/ssa"
)

type EngineErr struct {
	Msg   string
	Stack []string
}

func engineErr(msg string) *EngineErr { return &EngineErr{Msg: msg} }

type GoPanic struct {
	V     Value
	Msg   string
	Stack string
}

type PathEnd struct{ Reason string }

type deferred struct {
	fn   Value
	args []Value
	// invoke-mode
	method *ssa.Function
}

type Frame struct {
	fn        *ssa.Function
	env       map[ssa.Value]Value
	defers    []deferred
	panicking *GoPanic
	deferBy   *Frame
	caller    *Frame
	result    Value
	block     *ssa.BasicBlock
	prev      *ssa.BasicBlock
	loopCount map[*ssa.BasicBlock]int
}

func (ex *Exec) goPanic(msg string) {
	panic(&GoPanic{V: Iface{T: types.Typ[types.String], V: ex.strConst(msg)}, Msg: msg, Stack: ex.stackString()})
}

func (ex *Exec) stackString() string {
	n := len(ex.stackNames)
	lo := n - 8
	if lo < 0 {
		lo = 0
	}
	var parts []string
	for i := n - 1; i >= lo; i-- {
		parts = append(parts, ex.stackNames[i])
	}
	return strings.Join(parts, " < ")
}

func (ex *Exec) eval(fr *Frame, v ssa.Value) Value {
	switch x := v.(type) {
	case *ssa.Const:
		return ex.constVal(x)
	case *ssa.Function:
		return Func{Fn: x}
	case *ssa.Global:
		return Ptr{O: ex.global(x)}
	case *ssa.Builtin:
		return Func{Builtin: x}
	}
	r, ok := fr.env[v]
	if !ok {
		panic(engineErr(fmt.Sprintf("internal: no value for %s (%T) in %s", v.Name(), v, fr.fn)))
	}
	return r
}

func (ex *Exec) constVal(c *ssa.Const) Value {
	t := c.Type()
	if c.Value == nil {
		return ex.zero(t)
	}
	if isBigInt(t) {
		panic(engineErr("const big.Int"))
	}
	switch u := t.Underlying().(type) {
	case *types.Basic:
		switch {
		case u.Info()&types.IsBoolean != 0:
			return BoolV{ex.tf.Bool(constant.BoolVal(c.Value))}
		case u.Info()&types.IsInteger != 0:
			iv := constant.ToInt(c.Value)
			bi, ok := constant.Val(iv).(*big.Int)
			if !ok {
				i64, _ := constant.Int64Val(iv)
				bi = big.NewInt(i64)
				if constant.Sign(iv) > 0 {
					if u64, ok := constant.Uint64Val(iv); ok {
						bi = new(big.Int).SetUint64(u64)
					}
				}
			}
			return Int{ex.tf.Int(bi)}
		case u.Info()&types.IsFloat != 0:
			fv := constant.ToFloat(c.Value)
			switch r := constant.Val(fv).(type) {
			case *big.Rat:
				return Float{ex.tf.Real(r)}
			case *big.Float:
				rr, _ := r.Rat(nil)
				return Float{ex.tf.Real(rr)}
			case int64:
				return Float{ex.tf.Real(new(big.Rat).SetInt64(r))}
			case *big.Int:
				return Float{ex.tf.Real(new(big.Rat).SetInt(r))}
			}
			f64, _ := constant.Float64Val(fv)
			rr := new(big.Rat)
			rr.SetFloat64(f64)
			return Float{ex.tf.Real(rr)}
		case u.Info()&types.IsString != 0:
			return ex.strConst(constant.StringVal(c.Value))
		}
	}
	panic(engineErr("const of type " + t.String()))
}

func intInfo(t types.Type) (bits int, signed bool, ok bool) {
	b, isb := t.Underlying().(*types.Basic)
	if !isb || b.Info()&types.IsInteger == 0 {
		return 0, false, false
	}
	switch b.Kind() {
	case types.Int8:
		return 8, true, true
	case types.Int16:
		return 16, true, true
	case types.Int32:
		return 32, true, true
	case types.Int64, types.Int, types.UntypedInt, types.UntypedRune:
		return 64, true, true
	case types.Uint8:
		return 8, false, true
	case types.Uint16:
		return 16, false, true
	case types.Uint32:
		return 32, false, true
	case types.Uint64, types.Uint, types.Uintptr:
		return 64, false, true
	}
	return 0, false, false
}

func typeRange(t types.Type) (lo, hi *big.Int) {
	bits, signed, ok := intInfo(t)
	if !ok {
		return nil, nil
	}
	if signed {
		return new(big.Int).Neg(pow2(bits - 1)), new(big.Int).Sub(pow2(bits-1), big1)
	}
	return big0, new(big.Int).Sub(pow2(bits), big1)
}

// wrap reduces an integer term to the range of Go type t.
func (ex *Exec) wrap(x *Term, t types.Type) *Term {
	bits, signed, ok := intInfo(t)
	if !ok {
		return x
	}
	lo, hi := typeRange(t)
	if x.Lo != nil && x.Hi != nil && x.Lo.Cmp(lo) >= 0 && x.Hi.Cmp(hi) <= 0 {
		return x
	}
	f := ex.tf
	m := f.Int(pow2(bits))
	if !signed {
		return f.Mod(x, m)
	}
	h := f.Int(pow2(bits - 1))
	return f.Sub(f.Mod(f.Add(x, h), m), h)
}

func (ex *Exec) asBool(v Value) *Term {
	b, ok := v.(BoolV)
	if !ok {
		panic(engineErr(fmt.Sprintf("expected bool, got %T", v)))
	}
	return b.T
}

// ---------------- function calls ----------------

func (ex *Exec) callValue(fv Value, args []Value, deferBy *Frame, caller *Frame) Value {
	f, ok := fv.(Func)
	if !ok {
		panic(engineErr(fmt.Sprintf("call of non-function %T", fv)))
	}
	if f.Native != nil {
		return f.Native(ex, args)
	}
	if f.Builtin != nil {
		return ex.callBuiltin(f.Builtin.Name(), args, nil, caller)
	}
	if f.Fn == nil {
		ex.goPanic("runtime error: invalid memory address or nil pointer dereference (nil func)")
	}
	all := args
	if len(f.Bind) > 0 {
		all = append(append([]Value{}, args...), f.Bind...)
	}
	return ex.call(f.Fn, all, len(args), deferBy, caller)
}

// notHandled is returned by an intrinsic that declines the call: the real function body is executed instead.
type notHandled struct{}

func (ex *Exec) call(fn *ssa.Function, args []Value, nparams int, deferBy *Frame, caller *Frame) (ret Value) {
	name := fn.String()
	if st, ok := ex.run.stubs[name]; ok && st != fn {
		ex.noteAssumption("environment stub: " + name + " is replaced by the harness function " + st.String())
		return ex.call(st, args, nparams, deferBy, caller)
	}
	if in, ok := intrinsics[name]; ok {
		v := in(ex, args[:nparams], caller)
		if _, declined := v.(notHandled); !declined {
			ex.noteIntrinsic(name)
			return v
		}
		// the model does not cover these arguments: execute the real body
	} else if in := harnessIntrinsic(fn); in != nil {
		return in(ex, args[:nparams], caller)
	}
	if fn.Pkg != nil {
		fn.Pkg.Build() // sync.Once inside: also waits for a build in progress on another worker
	}
	if fn.Blocks == nil {
		// try a generic instantiation origin, else fail
		panic(engineErr("unmodelled external function " + name))
	}
	if blocked(fn) {
		panic(engineErr("call into unmodelled dependency " + name))
	}
	ex.depth++
	if ex.depth > 400 {
		panic(engineErr("call depth exceeded at " + name))
	}
	ex.noteFunc(fn)
	ex.stackNames = append(ex.stackNames, name)
	fr := &Frame{fn: fn, env: make(map[ssa.Value]Value, 16), deferBy: deferBy, caller: caller}
	for i, p := range fn.Params {
		fr.env[p] = args[i]
	}
	for i, fv := range fn.FreeVars {
		fr.env[fv] = args[nparams+i]
	}
	defer func() {
		ex.depth--
		ex.stackNames = ex.stackNames[:len(ex.stackNames)-1]
		if r := recover(); r != nil {
			gp, ok := r.(*GoPanic)
			if !ok {
				if ee, isE := r.(*EngineErr); isE && len(ee.Stack) < 12 {
					ee.Stack = append(ee.Stack, name)
				}
				panic(r)
			}
			fr.panicking = gp
			ex.runDefers(fr)
			if fr.panicking != nil {
				panic(fr.panicking)
			}
			if fn.Recover != nil {
				ret = ex.runBlocks(fr, fn.Recover)
			} else {
				ret = ex.zeroResults(fn)
			}
		}
	}()
	return ex.runBlocks(fr, fn.Blocks[0])
}

func (ex *Exec) zeroResults(fn *ssa.Function) Value {
	res := fn.Signature.Results()
	switch res.Len() {
	case 0:
		return nil
	case 1:
		return ex.zero(res.At(0).Type())
	}
	return ex.zero(res)
}

func (ex *Exec) runDefers(fr *Frame) {
	for len(fr.defers) > 0 {
		d := fr.defers[len(fr.defers)-1]
		fr.defers = fr.defers[:len(fr.defers)-1]
		if d.method != nil {
			ex.call(d.method, d.args, len(d.args), fr, fr)
		} else {
			ex.callValue(d.fn, d.args, fr, fr)
		}
	}
}

const maxLoopIter = 64

func (ex *Exec) runBlocks(fr *Frame, b *ssa.BasicBlock) Value {
	fr.block = b
	for {
		b = fr.block
		next := (*ssa.BasicBlock)(nil)
		for _, ins := range b.Instrs {
			ex.steps++
			if ex.steps > ex.maxSteps {
				panic(engineErr("step budget exceeded"))
			}
			switch i := ins.(type) {
			case *ssa.Phi:
				for k, p := range b.Preds {
					if p == fr.prev {
						fr.env[i] = ex.eval(fr, i.Edges[k])
						break
					}
				}
			case *ssa.Jump:
				next = b.Succs[0]
			case *ssa.If:
				c := ex.asBool(ex.eval(fr, i.Cond))
				if ex.branch(c, fr, ins) {
					next = b.Succs[0]
				} else {
					next = b.Succs[1]
				}
			case *ssa.Return:
				var ret Value
				switch len(i.Results) {
				case 0:
				case 1:
					ret = ex.eval(fr, i.Results[0])
				default:
					t := make(Tuple, len(i.Results))
					for k, r := range i.Results {
						t[k] = ex.eval(fr, r)
					}
					ret = t
				}
				return ret
			case *ssa.Panic:
				v := ex.eval(fr, i.X)
				panic(&GoPanic{V: v, Msg: ex.panicText(v), Stack: ex.stackString()})
			default:
				ex.step(fr, ins)
			}
			if next != nil {
				break
			}
		}
		if next == nil {
			panic(engineErr("block without terminator in " + fr.fn.String()))
		}
		// loop bound: count back-edges (target index <= source index)
		if next.Index <= b.Index {
			if fr.loopCount == nil {
				fr.loopCount = map[*ssa.BasicBlock]int{}
			}
			fr.loopCount[next]++
			for h := range fr.loopCount { // a new iteration of an outer loop starts its inner loops afresh
				if h.Index > next.Index {
					delete(fr.loopCount, h)
				}
			}
			if fr.loopCount[next] > ex.unwind && ex.inInit == 0 {
				panic(engineErr(fmt.Sprintf("unwinding bound %d exceeded at %s", ex.unwind, ex.prog.Fset.Position(firstPos(next)))))
			}
		}
		fr.prev = b
		fr.block = next
	}
}

func firstPos(b *ssa.BasicBlock) token.Pos {
	for _, i := range b.Instrs {
		if i.Pos().IsValid() {
			return i.Pos()
		}
	}
	return b.Parent().Pos()
}

func (ex *Exec) panicText(v Value) string {
	if i, ok := v.(Iface); ok {
		if i.T == nil {
			return "panic(nil)"
		}
		if s, ok := i.V.(Str); ok {
			if cs, ok := concreteString(s); ok {
				return cs
			}
			return describe(s)
		}
		return "panic(" + i.T.String() + ")"
	}
	return describe(v)
}

func (ex *Exec) step(fr *Frame, ins ssa.Instruction) {
	switch i := ins.(type) {
	case *ssa.DebugRef:
	case *ssa.Alloc:
		et := i.Type().(*types.Pointer).Elem()
		o := ex.newObj(ex.zero(et), et)
		fr.env[i] = Ptr{O: o}
	case *ssa.BinOp:
		fr.env[i] = ex.binop(i.Op, ex.eval(fr, i.X), ex.eval(fr, i.Y), i.X.Type(), i.Type())
	case *ssa.UnOp:
		fr.env[i] = ex.unop(i, ex.eval(fr, i.X))
	case *ssa.Call:
		fr.env[i] = ex.doCall(fr, i.Common(), i)
	case *ssa.Defer:
		c := i.Common()
		if c.IsInvoke() {
			recv := ex.eval(fr, c.Value)
			m, rv := ex.lookupMethod(recv, c.Method)
			args := []Value{rv}
			for _, a := range c.Args {
				args = append(args, ex.eval(fr, a))
			}
			fr.defers = append(fr.defers, deferred{method: m, args: args})
		} else {
			fv := ex.eval(fr, c.Value)
			var args []Value
			for _, a := range c.Args {
				args = append(args, ex.eval(fr, a))
			}
			fr.defers = append(fr.defers, deferred{fn: fv, args: args})
		}
	case *ssa.RunDefers:
		ex.runDefers(fr)
	case *ssa.ChangeInterface:
		fr.env[i] = ex.eval(fr, i.X)
	case *ssa.ChangeType:
		fr.env[i] = ex.eval(fr, i.X)
	case *ssa.Convert:
		fr.env[i] = ex.convert(ex.eval(fr, i.X), i.X.Type(), i.Type())
	case *ssa.Extract:
		fr.env[i] = ex.eval(fr, i.Tuple).(Tuple)[i.Index]
	case *ssa.Field:
		fr.env[i] = ex.eval(fr, i.X).(Struct).F[i.Field]
	case *ssa.FieldAddr:
		p := ex.eval(fr, i.X).(Ptr)
		if p.O == nil {
			ex.goPanic("runtime error: invalid memory address or nil pointer dereference")
		}
		if _, isBig := navigate(p.O.V, p.Path).(Big); isBig {
			panic(engineErr("field access into math/big.Int internals in " + fr.fn.String()))
		}
		fr.env[i] = ptrExtend(p, i.Field)
	case *ssa.Index:
		x := ex.eval(fr, i.X)
		idx := ex.mustInt(ex.eval(fr, i.Index), "index")
		switch a := x.(type) {
		case Array:
			if idx < 0 || idx >= len(a.E) {
				ex.goPanic("runtime error: index out of range")
			}
			fr.env[i] = a.E[idx]
		case Str:
			bs := ex.strBytes(a)
			if idx < 0 || idx >= len(bs) {
				ex.goPanic("runtime error: index out of range")
			}
			fr.env[i] = Int{bs[idx]}
		default:
			panic(engineErr(fmt.Sprintf("Index on %T", x)))
		}
	case *ssa.IndexAddr:
		x := ex.eval(fr, i.X)
		idx := ex.mustInt(ex.eval(fr, i.Index), "index")
		switch a := x.(type) {
		case Ptr: // pointer to array
			if a.O == nil {
				ex.goPanic("runtime error: invalid memory address or nil pointer dereference")
			}
			arr := navigate(a.O.V, a.Path).(Array)
			if idx < 0 || idx >= len(arr.E) {
				ex.goPanic("runtime error: index out of range")
			}
			fr.env[i] = ptrExtend(a, idx)
		case Slice:
			if a.Blob != nil {
				panic(engineErr("indexing a marshalled message"))
			}
			if idx < 0 || idx >= a.Len {
				ex.goPanic(fmt.Sprintf("runtime error: index out of range [%d] with length %d", idx, a.Len))
			}
			fr.env[i] = ex.sliceElemPtr(a, idx)
		default:
			panic(engineErr(fmt.Sprintf("IndexAddr on %T", x)))
		}
	case *ssa.Lookup:
		x := ex.eval(fr, i.X)
		switch m := x.(type) {
		case Str:
			idx := ex.mustInt(ex.eval(fr, i.Index), "string index")
			bs := ex.strBytes(m)
			if idx < 0 || idx >= len(bs) {
				ex.goPanic("runtime error: index out of range")
			}
			fr.env[i] = Int{bs[idx]}
		case Map:
			k := ex.eval(fr, i.Index)
			mt := i.X.Type().Underlying().(*types.Map)
			v, ok := ex.mapLookup(m, k)
			if !ok {
				v = ex.zero(mt.Elem())
			}
			if i.CommaOk {
				fr.env[i] = Tuple{v, BoolV{ex.tf.Bool(ok)}}
			} else {
				fr.env[i] = v
			}
		default:
			panic(engineErr(fmt.Sprintf("Lookup on %T", x)))
		}
	case *ssa.MakeClosure:
		var bind []Value
		for _, b := range i.Bindings {
			bind = append(bind, ex.eval(fr, b))
		}
		fr.env[i] = Func{Fn: i.Fn.(*ssa.Function), Bind: bind}
	case *ssa.MakeInterface:
		fr.env[i] = Iface{T: i.X.Type(), V: ex.eval(fr, i.X)}
	case *ssa.MakeMap:
		mt := i.Type().Underlying().(*types.Map)
		fr.env[i] = Map{&MapObj{KT: mt.Key(), VT: mt.Elem()}}
	case *ssa.MakeSlice:
		n := ex.mustInt(ex.eval(fr, i.Len), "make len")
		c := ex.mustInt(ex.eval(fr, i.Cap), "make cap")
		if n < 0 || c < n {
			ex.goPanic("runtime error: makeslice: len out of range")
		}
		if c > 1<<16 {
			panic(engineErr("make slice too large"))
		}
		et := i.Type().Underlying().(*types.Slice).Elem()
		es := make([]Value, c)
		if c > 0 {
			z := ex.zero(et)
			for k := range es {
				es[k] = z
			}
		}
		o := ex.newObj(Array{es}, types.NewArray(et, int64(c)))
		fr.env[i] = Slice{P: Ptr{O: o}, Len: n, Cap: c}
	case *ssa.MapUpdate:
		m := ex.eval(fr, i.Map).(Map)
		ex.mapUpdate(m, ex.eval(fr, i.Key), ex.eval(fr, i.Value))
	case *ssa.Range:
		fr.env[i] = ex.mkRange(ex.eval(fr, i.X))
	case *ssa.Next:
		fr.env[i] = ex.next(ex.eval(fr, i.Iter).(*MapIter), i)
	case *ssa.Slice:
		fr.env[i] = ex.sliceOp(fr, i)
	case *ssa.SliceToArrayPointer:
		s := ex.eval(fr, i.X).(Slice)
		n := int(i.Type().(*types.Pointer).Elem().Underlying().(*types.Array).Len())
		if s.Len < n {
			ex.goPanic("runtime error: cannot convert slice to array pointer")
		}
		if s.Off != 0 {
			panic(engineErr("slice-to-array-pointer with offset"))
		}
		fr.env[i] = s.P
	case *ssa.Store:
		p := ex.eval(fr, i.Addr).(Ptr)
		ex.store(p, copyVal(ex.eval(fr, i.Val)))
	case *ssa.TypeAssert:
		fr.env[i] = ex.typeAssert(i, ex.eval(fr, i.X))
	case *ssa.Go, *ssa.Select, *ssa.Send, *ssa.MakeChan:
		panic(engineErr(fmt.Sprintf("concurrency instruction %T in %s is not supported", ins, fr.fn)))
	default:
		panic(engineErr(fmt.Sprintf("unsupported instruction %T in %s", ins, fr.fn)))
	}
}

func (ex *Exec) doCall(fr *Frame, c *ssa.CallCommon, site ssa.Instruction) Value {
	if c.IsInvoke() {
		recv := ex.eval(fr, c.Value)
		m, rv := ex.lookupMethod(recv, c.Method)
		args := make([]Value, 0, len(c.Args)+1)
		args = append(args, rv)
		for _, a := range c.Args {
			args = append(args, ex.eval(fr, a))
		}
		return ex.call(m, args, len(args), nil, fr)
	}
	args := make([]Value, len(c.Args))
	for k, a := range c.Args {
		args[k] = ex.eval(fr, a)
	}
	switch f := c.Value.(type) {
	case *ssa.Builtin:
		return ex.callBuiltin(f.Name(), args, c, fr)
	case *ssa.Function:
		return ex.call(f, args, len(args), nil, fr)
	}
	return ex.callValue(ex.eval(fr, c.Value), args, nil, fr)
}

func (ex *Exec) lookupMethod(recv Value, m *types.Func) (*ssa.Function, Value) {
	iv, ok := recv.(Iface)
	if !ok {
		panic(engineErr(fmt.Sprintf("invoke on %T", recv)))
	}
	if iv.T == nil {
		ex.goPanic("runtime error: invalid memory address or nil pointer dereference (nil interface method call " + m.Name() + ")")
	}
	if op, ok := iv.V.(Opaque); ok {
		// opaque handles dispatch to intrinsics by static method name
		_ = op
	}
	mset := ex.prog.MethodSets.MethodSet(iv.T)
	sel := mset.Lookup(m.Pkg(), m.Name())
	if sel == nil {
		panic(engineErr("method " + m.Name() + " not found on " + iv.T.String()))
	}
	fn := ex.prog.MethodValue(sel)
	if fn == nil {
		panic(engineErr("no function for method " + m.Name() + " on " + iv.T.String()))
	}
	return fn, iv.V
}

func (ex *Exec) typeAssert(i *ssa.TypeAssert, x Value) Value {
	iv := x.(Iface)
	ok := false
	var res Value
	if iv.T != nil {
		if types.IsInterface(i.AssertedType) {
			it := i.AssertedType.Underlying().(*types.Interface)
			if types.Implements(iv.T, it) {
				ok = true
				res = iv
			}
		} else if types.Identical(iv.T, i.AssertedType) {
			ok = true
			res = iv.V
		}
	}
	if i.CommaOk {
		if !ok {
			res = ex.zero(i.AssertedType)
		}
		return Tuple{res, BoolV{ex.tf.Bool(ok)}}
	}
	if !ok {
		if iv.T == nil {
			ex.goPanic("interface conversion: interface is nil, not " + i.AssertedType.String())
		}
		ex.goPanic("interface conversion: interface is " + iv.T.String() + ", not " + i.AssertedType.String())
	}
	return res
}

func (ex *Exec) sliceOp(fr *Frame, i *ssa.Slice) Value {
	x := ex.eval(fr, i.X)
	get := func(v ssa.Value, def int) int {
		if v == nil {
			return def
		}
		return ex.mustInt(ex.eval(fr, v), "slice bound")
	}
	switch a := x.(type) {
	case Str:
		if a.Enc != nil && (a.Enc.Kind == "acc" || a.Enc.Kind == "val" || a.Enc.Kind == "cons") {
			// the human-readable part and the separator of a bech32 string are known text
			pre := bech32HRP[a.Enc.Kind] + "1"
			lo, hi := get(i.Low, 0), get(i.High, encLen(a.Enc))
			if lo >= 0 && lo <= hi && hi <= len(pre) {
				return ex.strConst(pre[lo:hi])
			}
			if lo == 0 && hi == encLen(a.Enc) {
				return a
			}
		}
		bs := ex.strBytes(a)
		lo, hi := get(i.Low, 0), get(i.High, len(bs))
		if lo < 0 || hi < lo || hi > len(bs) {
			ex.goPanic(fmt.Sprintf("runtime error: slice bounds out of range [%d:%d] with length %d", lo, hi, len(bs)))
		}
		return Str{B: bs[lo:hi]}
	case Slice:
		if a.Blob != nil {
			if i.Low == nil && i.High == nil {
				return a
			}
			if a.Blob.Pack != nil && i.High == nil && i.Max == nil {
				lo := get(i.Low, 0)
				np := *a.Blob.Pack
				np.skip += lo
				return Slice{Blob: &Blob{Pack: &np, Empty: ex.tf.False}}
			}
			panic(engineErr("slicing a marshalled message"))
		}
		lo, hi, mx := get(i.Low, 0), get(i.High, a.Len), get(i.Max, a.Cap)
		if lo < 0 || hi < lo || mx < hi || mx > a.Cap {
			ex.goPanic(fmt.Sprintf("runtime error: slice bounds out of range [%d:%d:%d] with capacity %d", lo, hi, mx, a.Cap))
		}
		if a.P.O == nil {
			return Slice{}
		}
		return Slice{P: a.P, Off: a.Off + lo, Len: hi - lo, Cap: mx - lo}
	case Ptr:
		if a.O == nil {
			ex.goPanic("runtime error: invalid memory address or nil pointer dereference")
		}
		arr := navigate(a.O.V, a.Path).(Array)
		n := len(arr.E)
		lo, hi, mx := get(i.Low, 0), get(i.High, n), get(i.Max, n)
		if lo < 0 || hi < lo || mx < hi || mx > n {
			ex.goPanic("runtime error: slice bounds out of range")
		}
		return Slice{P: a, Off: lo, Len: hi - lo, Cap: mx - lo}
	}
	panic(engineErr(fmt.Sprintf("Slice on %T", x)))
}

// ---------------- operators ----------------

func (ex *Exec) unop(i *ssa.UnOp, x Value) Value {
	f := ex.tf
	switch i.Op {
	case token.MUL:
		p := x.(Ptr)
		return copyVal(ex.load(p))
	case token.NOT:
		return BoolV{f.Not(ex.asBool(x))}
	case token.SUB:
		switch v := x.(type) {
		case Int:
			return Int{ex.wrap(f.Neg(v.T), i.Type())}
		case Float:
			return Float{f.Sub(f.Real(new(big.Rat)), v.T)}
		}
	case token.XOR:
		if v, ok := x.(Int); ok && v.T.IsConst() {
			bits, signed, _ := intInfo(i.Type())
			r := new(big.Int).Not(v.T.C)
			if !signed {
				r = euMod(r, pow2(bits))
			}
			return Int{f.Int(r)}
		}
		if v, ok := x.(Int); ok {
			// ^x = -x-1 (two's complement), then wrap
			return Int{ex.wrap(f.Sub(f.Neg(v.T), f.I64(1)), i.Type())}
		}
	case token.ARROW:
		panic(engineErr("channel receive is not supported"))
	}
	panic(engineErr(fmt.Sprintf("unop %s on %T", i.Op, x)))
}

func (ex *Exec) binop(op token.Token, x, y Value, xt types.Type, rt types.Type) Value {
	f := ex.tf
	switch a := x.(type) {
	case Int:
		b, ok := y.(Int)
		if !ok {
			panic(engineErr(fmt.Sprintf("binop %s int with %T", op, y)))
		}
		return ex.intBinop(op, a.T, b.T, xt, rt)
	case Float:
		b := y.(Float)
		switch op {
		case token.ADD:
			return Float{f.Add(a.T, b.T)}
		case token.SUB:
			return Float{f.Sub(a.T, b.T)}
		case token.MUL:
			return Float{f.Mul(a.T, b.T)}
		case token.QUO:
			ex.noteAssumption("float64 arithmetic is evaluated over exact rationals (rounding ignored)")
			if b.T.IsConst() && b.T.R.Sign() == 0 {
				panic(engineErr("float division by zero"))
			}
			return Float{f.RDiv(a.T, b.T)}
		case token.EQL:
			return BoolV{f.Eq(a.T, b.T)}
		case token.NEQ:
			return BoolV{f.Not(f.Eq(a.T, b.T))}
		case token.LSS:
			return BoolV{f.Lt(a.T, b.T)}
		case token.LEQ:
			return BoolV{f.Le(a.T, b.T)}
		case token.GTR:
			return BoolV{f.Lt(b.T, a.T)}
		case token.GEQ:
			return BoolV{f.Le(b.T, a.T)}
		}
	case BoolV:
		b := y.(BoolV)
		switch op {
		case token.EQL:
			return BoolV{f.Eq(a.T, b.T)}
		case token.NEQ:
			return BoolV{f.Not(f.Eq(a.T, b.T))}
		case token.AND, token.LAND:
			return BoolV{f.And(a.T, b.T)}
		case token.OR, token.LOR:
			return BoolV{f.Or(a.T, b.T)}
		}
	case Str:
		b := y.(Str)
		switch op {
		case token.ADD:
			return ex.strConcat(a, b)
		case token.EQL:
			return BoolV{ex.strEq(a, b)}
		case token.NEQ:
			return BoolV{f.Not(ex.strEq(a, b))}
		case token.LSS:
			return BoolV{ex.strLess(a, b, false)}
		case token.LEQ:
			return BoolV{ex.strLess(a, b, true)}
		case token.GTR:
			return BoolV{ex.strLess(b, a, false)}
		case token.GEQ:
			return BoolV{ex.strLess(b, a, true)}
		}
	}
	switch op {
	case token.EQL:
		return BoolV{ex.valEq(x, y)}
	case token.NEQ:
		return BoolV{f.Not(ex.valEq(x, y))}
	}
	panic(engineErr(fmt.Sprintf("binop %s on %T,%T", op, x, y)))
}

func (ex *Exec) intBinop(op token.Token, a, b *Term, xt, rt types.Type) Value {
	f := ex.tf
	switch op {
	case token.ADD:
		return Int{ex.wrap(f.Add(a, b), rt)}
	case token.SUB:
		return Int{ex.wrap(f.Sub(a, b), rt)}
	case token.MUL:
		return Int{ex.wrap(f.Mul(a, b), rt)}
	case token.QUO, token.REM:
		if b.IsConst() {
			if b.C.Sign() == 0 {
				ex.goPanic("runtime error: integer divide by zero")
			}
		} else {
			if ex.branchNoSite(f.Eq(b, f.I64(0))) {
				ex.goPanic("runtime error: integer divide by zero")
			}
		}
		if op == token.QUO {
			return Int{ex.wrap(f.TDiv(a, b), rt)}
		}
		return Int{f.TRem(a, b)}
	case token.EQL:
		return BoolV{f.Eq(a, b)}
	case token.NEQ:
		return BoolV{f.Not(f.Eq(a, b))}
	case token.LSS:
		return BoolV{f.Lt(a, b)}
	case token.LEQ:
		return BoolV{f.Le(a, b)}
	case token.GTR:
		return BoolV{f.Lt(b, a)}
	case token.GEQ:
		return BoolV{f.Le(b, a)}
	case token.SHL, token.SHR:
		if !b.IsConst() {
			panic(engineErr("shift by a symbolic amount"))
		}
		k := int(b.C.Int64())
		if k < 0 {
			ex.goPanic("runtime error: negative shift amount")
		}
		if k > 4096 {
			return Int{f.I64(0)}
		}
		if op == token.SHL {
			return Int{ex.wrap(f.Mul(a, f.Int(pow2(k))), rt)}
		}
		return Int{f.Div(a, f.Int(pow2(k)))} // floor division = arithmetic shift for both signs
	case token.AND, token.OR, token.XOR, token.AND_NOT:
		if a.IsConst() && b.IsConst() {
			bits, signed, _ := intInfo(rt)
			var r *big.Int
			switch op {
			case token.AND:
				r = new(big.Int).And(a.C, b.C)
			case token.OR:
				r = new(big.Int).Or(a.C, b.C)
			case token.XOR:
				r = new(big.Int).Xor(a.C, b.C)
			default:
				r = new(big.Int).AndNot(a.C, b.C)
			}
			if !signed {
				r = euMod(r, pow2(bits))
			}
			return Int{f.Int(r)}
		}
		if op == token.AND {
			// x & (2^k-1)
			for _, pr := range [][2]*Term{{a, b}, {b, a}} {
				x, m := pr[0], pr[1]
				if m.IsConst() && m.C.Sign() >= 0 {
					mp := new(big.Int).Add(m.C, big1)
					if mp.BitLen()-1 >= 0 && new(big.Int).And(mp, m.C).Sign() == 0 {
						return Int{f.Mod(x, f.Int(mp))}
					}
					if m.C.Sign() == 0 {
						return Int{f.I64(0)}
					}
					// no common bits possible: x < lowest set bit of the mask
					low := new(big.Int).And(m.C, new(big.Int).Neg(m.C))
					if x.Lo != nil && x.Hi != nil && x.Lo.Sign() >= 0 && x.Hi.Cmp(low) < 0 {
						return Int{f.I64(0)}
					}
				}
			}
		}
		if op == token.AND_NOT && b.IsConst() && b.C.Sign() >= 0 {
			// x &^ m == x when x has no bit of m
			low := new(big.Int).And(b.C, new(big.Int).Neg(b.C))
			if b.C.Sign() == 0 || (a.Lo != nil && a.Hi != nil && a.Lo.Sign() >= 0 && a.Hi.Cmp(low) < 0) {
				return Int{a}
			}
		}
		if op == token.OR {
			if a.IsConst() && a.C.Sign() == 0 {
				return Int{b}
			}
			if b.IsConst() && b.C.Sign() == 0 {
				return Int{a}
			}
		}
		if op == token.AND || op == token.AND_NOT {
			// the intervals did not decide it: case split on whether x lies below the lowest bit of the constant
			// mask (then x & m == 0 and x &^ m == x); usually only that side is feasible on the path
			x, m := a, b
			if op == token.AND && a.IsConst() {
				x, m = b, a
			}
			if m.IsConst() && m.C.Sign() > 0 && !x.IsConst() {
				low := new(big.Int).And(m.C, new(big.Int).Neg(m.C))
				below := f.And(f.Le(f.I64(0), x), f.Lt(x, f.Int(low)))
				if ex.branchNoSite(below) { // a recorded decision: forks only if x can also reach the mask (that side is an engine error)
					if op == token.AND {
						return Int{f.I64(0)}
					}
					return Int{x}
				}
			}
		}
		panic(engineErr(fmt.Sprintf("bit operation %s on symbolic operands", op)))
	}
	panic(engineErr("int binop " + op.String()))
}

func (ex *Exec) convert(x Value, from, to types.Type) Value {
	f := ex.tf
	tu := to.Underlying()
	switch v := x.(type) {
	case Int:
		if tb, ok := tu.(*types.Basic); ok {
			switch {
			case tb.Info()&types.IsInteger != 0:
				return Int{ex.wrap(v.T, to)}
			case tb.Info()&types.IsFloat != 0:
				return Float{f.ToReal(v.T)}
			case tb.Info()&types.IsString != 0:
				if v.T.IsConst() {
					return ex.strConst(string(rune(v.T.C.Int64())))
				}
				panic(engineErr("string(symbolic rune)"))
			}
		}
		if _, ok := tu.(*types.Pointer); ok { // unsafe
			panic(engineErr("int to pointer conversion"))
		}
	case Float:
		if tb, ok := tu.(*types.Basic); ok {
			if tb.Info()&types.IsFloat != 0 {
				return v
			}
			if tb.Info()&types.IsInteger != 0 {
				if v.T.IsConst() {
					q := new(big.Int).Quo(v.T.R.Num(), v.T.R.Denom())
					return Int{ex.wrap(f.Int(q), to)}
				}
				panic(engineErr("float to int conversion of a symbolic value"))
			}
		}
	case Str:
		switch t := tu.(type) {
		case *types.Basic:
			return v
		case *types.Slice:
			eb, _ := t.Elem().Underlying().(*types.Basic)
			if eb != nil && eb.Kind() == types.Uint8 {
				if v.Opq != nil || (v.Enc != nil && v.Enc.Kind != "hex") {
					// bytes of an abstract string stay abstract
					sv := v
					return Slice{Blob: &Blob{Str: &sv, Empty: ex.tf.False}}
				}
				bs := ex.strBytes(v)
				return ex.bytesSlice(bs)
			}
			if eb != nil && eb.Kind() == types.Int32 {
				cs, ok := concreteString(v)
				if !ok {
					panic(engineErr("[]rune(symbolic string)"))
				}
				var es []Value
				for _, r := range cs {
					es = append(es, Int{f.I64(int64(r))})
				}
				return ex.mkSlice(es, t.Elem())
			}
		}
	case Slice:
		if tb, ok := tu.(*types.Basic); ok && tb.Info()&types.IsString != 0 {
			if v.Blob != nil {
				if v.Blob.Str != nil {
					return *v.Blob.Str
				}
				return Str{Opq: ex.newOpq("string(blob)", []Value{v})}
			}
			fs, _ := from.Underlying().(*types.Slice)
			if fs != nil {
				if eb, _ := fs.Elem().Underlying().(*types.Basic); eb != nil && eb.Kind() == types.Int32 {
					var sb strings.Builder
					for _, e := range ex.sliceElems(v) {
						c, ok := concreteInt(e)
						if !ok {
							panic(engineErr("string(symbolic []rune)"))
						}
						sb.WriteRune(rune(c))
					}
					return ex.strConst(sb.String())
				}
			}
			return Str{B: ex.sliceBytes(v)}
		}
		if _, ok := tu.(*types.Slice); ok {
			return v
		}
		if pt, ok := tu.(*types.Pointer); ok { // slice to array pointer (Go 1.17 Convert)
			_ = pt
			return v.P
		}
	case Ptr:
		return v
	}
	panic(engineErr(fmt.Sprintf("convert %T from %s to %s", x, from, to)))
}

// ---------------- equality ----------------

func (ex *Exec) valEq(x, y Value) *Term {
	f := ex.tf
	switch a := x.(type) {
	case Int:
		return f.Eq(a.T, y.(Int).T)
	case BoolV:
		return f.Eq(a.T, y.(BoolV).T)
	case Float:
		return f.Eq(a.T, y.(Float).T)
	case Str:
		return ex.strEq(a, y.(Str))
	case Big:
		return f.Eq(a.T, y.(Big).T)
	case Ptr:
		b := y.(Ptr)
		return f.Bool(a.O == b.O && samePath(a.Path, b.Path))
	case Struct:
		b := y.(Struct)
		var cs []*Term
		for i := range a.F {
			cs = append(cs, ex.valEq(a.F[i], b.F[i]))
		}
		return f.And(cs...)
	case Array:
		b := y.(Array)
		var cs []*Term
		for i := range a.E {
			cs = append(cs, ex.valEq(a.E[i], b.E[i]))
		}
		return f.And(cs...)
	case Iface:
		b, ok := y.(Iface)
		if !ok {
			panic(engineErr("compare iface with non-iface"))
		}
		if a.T == nil || b.T == nil {
			return f.Bool(a.T == nil && b.T == nil)
		}
		if !types.Identical(a.T, b.T) {
			return f.False
		}
		return ex.valEq(a.V, b.V)
	case Slice:
		b := y.(Slice)
		if b.P.O == nil && b.Blob == nil {
			return f.Bool(a.P.O == nil && a.Blob == nil)
		}
		if a.P.O == nil && a.Blob == nil {
			return f.Bool(b.P.O == nil && b.Blob == nil)
		}
		panic(engineErr("slice comparison"))
	case Map:
		b := y.(Map)
		if a.M == nil || b.M == nil {
			return f.Bool(a.M == nil && b.M == nil)
		}
		return f.Bool(a.M == b.M)
	case Func:
		b := y.(Func)
		an := a.Fn == nil && a.Builtin == nil && a.Native == nil
		bn := b.Fn == nil && b.Builtin == nil && b.Native == nil
		if an || bn {
			return f.Bool(an && bn)
		}
		panic(engineErr("func comparison"))
	case Opaque:
		if b, ok := y.(Opaque); ok {
			return f.Bool(a.Desc == b.Desc && a.Data == b.Data)
		}
		return f.False
	case nil:
		return f.Bool(y == nil)
	}
	panic(engineErr(fmt.Sprintf("equality on %T", x)))
}

// ---------------- builtins ----------------

func (ex *Exec) callBuiltin(name string, args []Value, c *ssa.CallCommon, fr *Frame) Value {
	f := ex.tf
	switch name {
	case "len":
		switch a := args[0].(type) {
		case Str:
			return Int{ex.strLen(a)}
		case Slice:
			if a.Blob != nil {
				return Int{ex.blobLen(a.Blob)}
			}
			return Int{f.I64(int64(a.Len))}
		case Map:
			if a.M == nil {
				return Int{f.I64(0)}
			}
			return Int{f.I64(int64(len(a.M.Keys)))}
		case Array:
			return Int{f.I64(int64(len(a.E)))}
		case Ptr:
			arr := navigate(a.O.V, a.Path).(Array)
			return Int{f.I64(int64(len(arr.E)))}
		}
	case "cap":
		switch a := args[0].(type) {
		case Slice:
			return Int{f.I64(int64(a.Cap))}
		case Array:
			return Int{f.I64(int64(len(a.E)))}
		}
	case "append":
		s := args[0].(Slice)
		var add []Value
		switch b := args[1].(type) {
		case Slice:
			if b.Blob != nil {
				panic(engineErr("append of a marshalled message"))
			}
			add = ex.sliceElems(b)
		case Str:
			for _, t := range ex.strBytes(b) {
				add = append(add, Int{t})
			}
		}
		if s.Blob != nil {
			panic(engineErr("append to a marshalled message"))
		}
		if len(add) == 0 {
			return s
		}
		if s.P.O != nil && s.Len+len(add) <= s.Cap {
			for k, e := range add {
				ex.store(ex.sliceElemPtr(s, s.Len+k), e)
			}
			return Slice{P: s.P, Off: s.Off, Len: s.Len + len(add), Cap: s.Cap}
		}
		old := ex.sliceElems(s)
		ncap := (s.Len + len(add)) * 2
		es := make([]Value, ncap)
		copy(es, old)
		copy(es[len(old):], add)
		var et types.Type = byteType
		if c != nil {
			et = c.Args[0].Type().Underlying().(*types.Slice).Elem()
		}
		z := ex.zero(et)
		for k := len(old) + len(add); k < ncap; k++ {
			es[k] = z
		}
		o := ex.newObj(Array{es}, types.NewArray(et, int64(ncap)))
		return Slice{P: Ptr{O: o}, Len: len(old) + len(add), Cap: ncap}
	case "copy":
		dst := args[0].(Slice)
		var src []Value
		switch b := args[1].(type) {
		case Slice:
			src = ex.sliceElems(b)
		case Str:
			for _, t := range ex.strBytes(b) {
				src = append(src, Int{t})
			}
		}
		n := dst.Len
		if len(src) < n {
			n = len(src)
		}
		for k := 0; k < n; k++ {
			ex.store(ex.sliceElemPtr(dst, k), src[k])
		}
		return Int{f.I64(int64(n))}
	case "delete":
		ex.mapDelete(args[0].(Map), args[1])
		return nil
	case "recover":
		if fr != nil && fr.deferBy != nil && fr.deferBy.panicking != nil {
			v := fr.deferBy.panicking.V
			fr.deferBy.panicking = nil
			if iv, ok := v.(Iface); ok {
				return iv
			}
			return Iface{T: types.Typ[types.String], V: v}
		}
		return Iface{}
	case "print", "println":
		return nil
	case "ssa:wrapnilchk":
		p := args[0].(Ptr)
		if p.O == nil {
			ex.goPanic("value method called using nil pointer")
		}
		return p
	case "min", "max":
		a, b := args[0].(Int).T, args[1].(Int).T
		if name == "min" {
			return Int{f.Ite(f.Le(a, b), a, b)}
		}
		return Int{f.Ite(f.Le(a, b), b, a)}
	}
	panic(engineErr("builtin " + name))
}

// ---------------- maps ----------------

func (ex *Exec) mapFind(m *MapObj, k Value) int {
	for i, ek := range m.Keys {
		eq := ex.valEq(ek, k)
		if eq.IsConst() {
			if eq.B {
				return i
			}
			continue
		}
		if ex.branchNoSite(eq) {
			return i
		}
	}
	return -1
}

func (ex *Exec) mapLookup(m Map, k Value) (Value, bool) {
	if m.M == nil {
		return nil, false
	}
	if i := ex.mapFind(m.M, k); i >= 0 {
		return m.M.Vals[i], true
	}
	return nil, false
}

func (ex *Exec) mapUpdate(m Map, k, v Value) {
	if m.M == nil {
		ex.goPanic("assignment to entry in nil map")
	}
	if i := ex.mapFind(m.M, k); i >= 0 {
		m.M.Vals[i] = v
		return
	}
	m.M.Keys = append(m.M.Keys, k)
	m.M.Vals = append(m.M.Vals, v)
	m.M.Epoch++
}

func (ex *Exec) mapDelete(m Map, k Value) {
	if m.M == nil {
		return
	}
	if i := ex.mapFind(m.M, k); i >= 0 {
		m.M.Keys = append(append([]Value{}, m.M.Keys[:i]...), m.M.Keys[i+1:]...)
		m.M.Vals = append(append([]Value{}, m.M.Vals[:i]...), m.M.Vals[i+1:]...)
		m.M.Epoch++
	}
}

func (ex *Exec) mkRange(x Value) Value {
	switch a := x.(type) {
	case Map:
		it := &MapIter{M: a.M}
		if a.M != nil {
			it.Keys = append([]Value{}, a.M.Keys...)
			it.Vals = append([]Value{}, a.M.Vals...)
			for i := range it.Keys {
				it.Left = append(it.Left, i)
			}
		}
		return it
	case Str:
		return &MapIter{IsStr: true, S: a}
	}
	panic(engineErr(fmt.Sprintf("range over %T", x)))
}

func (ex *Exec) next(it *MapIter, i *ssa.Next) Value {
	f := ex.tf
	if it.IsStr {
		bs := ex.strBytes(it.S)
		if it.Pos >= len(bs) {
			return Tuple{BoolV{f.False}, Int{f.I64(0)}, Int{f.I64(0)}}
		}
		b := bs[it.Pos]
		if !b.IsConst() {
			// assume ASCII for symbolic bytes? not sound: require explicit bound
			if ex.solverImplies(f.Lt(b, f.I64(128))) {
				p := it.Pos
				it.Pos++
				return Tuple{BoolV{f.True}, Int{f.I64(int64(p))}, Int{b}}
			}
			panic(engineErr("range over a string with symbolic non-ASCII bytes"))
		}
		cs := []byte{}
		for k := it.Pos; k < len(bs) && k < it.Pos+4; k++ {
			if !bs[k].IsConst() {
				break
			}
			cs = append(cs, byte(bs[k].C.Int64()))
		}
		r, size := decodeRune(cs)
		p := it.Pos
		it.Pos += size
		return Tuple{BoolV{f.True}, Int{f.I64(int64(p))}, Int{f.I64(int64(r))}}
	}
	for len(it.Left) > 0 {
		// arbitrary iteration order: the engine chooses which remaining entry comes next
		k := 0
		if len(it.Left) > 1 {
			k = ex.choose(len(it.Left), "maporder")
		}
		idx := it.Left[k]
		it.Left = append(append([]int{}, it.Left[:k]...), it.Left[k+1:]...)
		key := it.Keys[idx]
		// current value (skip if deleted meanwhile)
		cur := -1
		for j, ek := range it.M.Keys {
			if eq := ex.valEq(ek, key); eq.IsConst() && eq.B {
				cur = j
				break
			}
		}
		if cur < 0 {
			continue
		}
		return Tuple{BoolV{f.True}, key, it.M.Vals[cur]}
	}
	var kz, vz Value
	if it.M != nil {
		kz, vz = ex.zero(it.M.KT), ex.zero(it.M.VT)
	} else {
		tt := i.Type().(*types.Tuple)
		kz, vz = ex.zero(tt.At(1).Type()), ex.zero(tt.At(2).Type())
	}
	return Tuple{BoolV{f.False}, kz, vz}
}

func decodeRune(b []byte) (rune, int) {
	s := string(b)
	for _, r := range s {
		n := len(string(r))
		if r == 0xFFFD {
			return r, 1
		}
		return r, n
	}
	return 0xFFFD, 1
}
