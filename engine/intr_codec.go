package main

func (ex *Exec) blobLen(b *Blob) *Term {
	f := ex.tf
	if b.Str != nil {
		return ex.strLen(*b.Str)
	}
	if b.Empty.IsConst() {
		if b.Empty.B {
			return f.I64(0)
		}
	}
	ex.blobCnt++
	l := f.Var("bloblen!"+itoa(b.ID), SInt, big0, nil)
	ex.assume(f.Eq(f.Eq(l, f.I64(0)), b.Empty))
	return l
}

func (ex *Exec) blobEq(a, b *Blob) *Term {
	if a == b {
		return ex.tf.True
	}
	if a.Str != nil || b.Str != nil {
		if a.Str != nil && b.Str != nil {
			return ex.strEq(*a.Str, *b.Str)
		}
		return ex.tf.False
	}
	t, ok := ex.tryDeepEq(a.V, b.V)
	if !ok {
		panic(engineErr("structural comparison of marshalled messages failed"))
	}
	return t
}

func (ex *Exec) blobDigest(b *Blob) *Term {
	panic(engineErr("hash of a marshalled message"))
}

func (ex *Exec) tryDeepEq(a, b Value) (t *Term, ok bool) {
	defer func() {
		if r := recover(); r != nil {
			if _, isE := r.(*EngineErr); isE {
				ok = false
				return
			}
			panic(r)
		}
	}()
	return ex.deepEq(a, b, 0), true
}

// deepEq: structural equality following pointers; nil and empty slices are equal (wire semantics).
func (ex *Exec) deepEq(a, b Value, depth int) *Term {
	f := ex.tf
	if depth > 30 {
		panic(engineErr("deepEq depth"))
	}
	switch x := a.(type) {
	case Ptr:
		y, ok := b.(Ptr)
		if !ok {
			return f.False
		}
		if x.O == nil || y.O == nil {
			return f.Bool(x.O == nil && y.O == nil)
		}
		return ex.deepEq(ex.load(x), ex.load(y), depth+1)
	case Slice:
		y, ok := b.(Slice)
		if !ok {
			return f.False
		}
		if x.Blob != nil || y.Blob != nil {
			if x.Blob != nil && y.Blob != nil {
				return ex.blobEq(x.Blob, y.Blob)
			}
			bl, o := x.Blob, y
			if bl == nil {
				bl, o = y.Blob, x
			}
			if o.Len == 0 {
				return bl.Empty
			}
			return f.False
		}
		if x.Len != y.Len {
			return f.False
		}
		xs, ys := ex.sliceElems(x), ex.sliceElems(y)
		var cs []*Term
		for i := range xs {
			cs = append(cs, ex.deepEq(xs[i], ys[i], depth+1))
		}
		return f.And(cs...)
	case Struct:
		y, ok := b.(Struct)
		if !ok || len(x.F) != len(y.F) {
			return f.False
		}
		var cs []*Term
		for i := range x.F {
			cs = append(cs, ex.deepEq(x.F[i], y.F[i], depth+1))
		}
		return f.And(cs...)
	case Array:
		y, ok := b.(Array)
		if !ok || len(x.E) != len(y.E) {
			return f.False
		}
		var cs []*Term
		for i := range x.E {
			cs = append(cs, ex.deepEq(x.E[i], y.E[i], depth+1))
		}
		return f.And(cs...)
	case Iface:
		y, ok := b.(Iface)
		if !ok {
			return f.False
		}
		if x.T == nil || y.T == nil {
			return f.Bool(x.T == nil && y.T == nil)
		}
		if !typesIdentical(x.T, y.T) {
			return f.False
		}
		return ex.deepEq(x.V, y.V, depth+1)
	case Map:
		panic(engineErr("deepEq on maps"))
	}
	return ex.valEq(a, b)
}
