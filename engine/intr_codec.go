package main

import (
	"fmt"
	"strings"
)

func (ex *Exec) blobLen(b *Blob) *Term {
	f := ex.tf
	if b.Str != nil {
		return ex.strLen(*b.Str)
	}
	if b.Empty.IsConst() {
		if b.Empty.B {
			return f.I64(0)
		}
	}
	ex.blobCnt++
	l := f.Var("bloblen!"+itoa(b.ID), SInt, big0, nil)
	ex.assume(f.Eq(f.Eq(l, f.I64(0)), b.Empty))
	return l
}

func (ex *Exec) blobEq(a, b *Blob) *Term {
	if a == b {
		return ex.tf.True
	}
	if a.Pack != nil || b.Pack != nil {
		if a.Pack == nil || b.Pack == nil {
			return ex.tf.False
		}
		pa, pb := a.Pack, b.Pack
		if pa.abi != pb.abi || len(pa.args) != len(pb.args) || pa.skip != pb.skip {
			return ex.tf.False
		}
		if pa.skip < 4 && pa.method != pb.method { // the method name only feeds the 4-byte selector
			return ex.tf.False
		}
		cs := []*Term{}
		for i := range pa.args {
			t, ok := ex.tryDeepEq(pa.args[i], pb.args[i])
			if !ok {
				panic(engineErr("comparison of abi.Pack arguments failed"))
			}
			cs = append(cs, t)
		}
		return ex.tf.And(cs...)
	}
	if a.Str != nil || b.Str != nil {
		if a.Str != nil && b.Str != nil {
			return ex.strEq(*a.Str, *b.Str)
		}
		return ex.tf.False
	}
	t, ok := ex.tryDeepEq(a.V, b.V)
	if !ok {
		panic(engineErr("structural comparison of marshalled messages failed"))
	}
	return t
}

// blobDigest: one pseudo-byte standing for the whole opaque encoding; equal iff the encoded contents are equal.
func (ex *Exec) blobDigest(b *Blob) *Term {
	f := ex.tf
	if b.digest != nil {
		return b.digest
	}
	key := ex.blobKey(b)
	for _, o := range ex.digested {
		if o.key == key && key != "" {
			b.digest = o.digest
			return b.digest
		}
	}
	b.key = key
	ex.blobCnt++
	d := f.Var("blobdigest!"+itoa(ex.blobCnt), SInt, nil, nil)
	b.digest = d
	for _, o := range ex.digested {
		if (o.Pack != nil) != (b.Pack != nil) || (o.Str != nil) != (b.Str != nil) {
			ex.assume(f.Not(f.Eq(d, o.digest)))
			continue
		}
		ex.assume(f.Eq(f.Eq(d, o.digest), ex.blobEq(b, o)))
	}
	ex.digested = append(ex.digested, b)
	return d
}

func (ex *Exec) tryDeepEq(a, b Value) (t *Term, ok bool) {
	defer func() {
		if r := recover(); r != nil {
			if _, isE := r.(*EngineErr); isE {
				ok = false
				return
			}
			panic(r)
		}
	}()
	return ex.deepEq(a, b, 0), true
}

// deepEq: structural equality following pointers; nil and empty slices are equal (wire semantics).
func (ex *Exec) deepEq(a, b Value, depth int) *Term {
	f := ex.tf
	if depth > 30 {
		panic(engineErr("deepEq depth"))
	}
	switch x := a.(type) {
	case Ptr:
		y, ok := b.(Ptr)
		if !ok {
			return f.False
		}
		if x.O == nil || y.O == nil {
			return f.Bool(x.O == nil && y.O == nil)
		}
		return ex.deepEq(ex.load(x), ex.load(y), depth+1)
	case Slice:
		y, ok := b.(Slice)
		if !ok {
			return f.False
		}
		if x.Blob != nil || y.Blob != nil {
			if x.Blob != nil && y.Blob != nil {
				return ex.blobEq(x.Blob, y.Blob)
			}
			bl, o := x.Blob, y
			if bl == nil {
				bl, o = y.Blob, x
			}
			if o.Len == 0 {
				return bl.Empty
			}
			return f.False
		}
		if x.Len != y.Len {
			return f.False
		}
		xs, ys := ex.sliceElems(x), ex.sliceElems(y)
		allInt := len(xs) > 0
		for i := range xs {
			_, a := xs[i].(Int)
			_, b := ys[i].(Int)
			if !a || !b {
				allInt = false
				break
			}
		}
		if allInt { // byte strings: go through bytesEq so that digests are related by injectivity
			bx, by := make([]*Term, len(xs)), make([]*Term, len(ys))
			for i := range xs {
				bx[i], by[i] = xs[i].(Int).T, ys[i].(Int).T
			}
			return ex.bytesEq(bx, by)
		}
		var cs []*Term
		for i := range xs {
			cs = append(cs, ex.deepEq(xs[i], ys[i], depth+1))
		}
		return f.And(cs...)
	case Struct:
		y, ok := b.(Struct)
		if !ok || len(x.F) != len(y.F) {
			return f.False
		}
		var cs []*Term
		for i := range x.F {
			cs = append(cs, ex.deepEq(x.F[i], y.F[i], depth+1))
		}
		return f.And(cs...)
	case Array:
		y, ok := b.(Array)
		if !ok || len(x.E) != len(y.E) {
			return f.False
		}
		var cs []*Term
		for i := range x.E {
			cs = append(cs, ex.deepEq(x.E[i], y.E[i], depth+1))
		}
		return f.And(cs...)
	case Iface:
		y, ok := b.(Iface)
		if !ok {
			return f.False
		}
		if x.T == nil || y.T == nil {
			return f.Bool(x.T == nil && y.T == nil)
		}
		if !typesIdentical(x.T, y.T) {
			return f.False
		}
		return ex.deepEq(x.V, y.V, depth+1)
	case Map:
		panic(engineErr("deepEq on maps"))
	}
	return ex.valEq(a, b)
}

// keyOf appends a structural identity of v (through pointers) to sb; returns false if not expressible.
func (ex *Exec) keyOf(sb *strings.Builder, v Value, depth int) bool {
	if depth > 30 || sb.Len() > 1<<16 {
		return false
	}
	switch x := v.(type) {
	case Int:
		fmt.Fprintf(sb, "i%d,", x.T.ID)
	case BoolV:
		fmt.Fprintf(sb, "b%d,", x.T.ID)
	case Big:
		fmt.Fprintf(sb, "B%d,", x.T.ID)
	case Float:
		fmt.Fprintf(sb, "f%d,", x.T.ID)
	case Str:
		switch {
		case x.Enc != nil:
			sb.WriteString("e" + x.Enc.Kind + ":" + termsKey(x.Enc.Data) + ",")
		case x.Opq != nil:
			if x.Opq.Key != "" {
				sb.WriteString("o(" + x.Opq.Key + "),")
			} else {
				fmt.Fprintf(sb, "o%d,", x.Opq.ID)
			}
		default:
			sb.WriteString("s" + termsKey(x.B) + ",")
		}
	case Ptr:
		if x.O == nil {
			sb.WriteString("nil,")
		} else {
			sb.WriteString("&(")
			if !ex.keyOf(sb, ex.load(x), depth+1) {
				return false
			}
			sb.WriteString("),")
		}
	case Struct:
		sb.WriteString("{")
		for _, fv := range x.F {
			if !ex.keyOf(sb, fv, depth+1) {
				return false
			}
		}
		sb.WriteString("},")
	case Array:
		sb.WriteString("[")
		for _, e := range x.E {
			if !ex.keyOf(sb, e, depth+1) {
				return false
			}
		}
		sb.WriteString("],")
	case Slice:
		if x.Blob != nil {
			k := ex.blobKey(x.Blob)
			if k == "" {
				return false
			}
			sb.WriteString("blob(" + k + "),")
		} else {
			sb.WriteString("sl[")
			for _, e := range ex.sliceElems(x) {
				if !ex.keyOf(sb, e, depth+1) {
					return false
				}
			}
			sb.WriteString("],")
		}
	case Iface:
		if x.T == nil {
			sb.WriteString("nilif,")
		} else {
			sb.WriteString("if:" + x.T.String() + "(")
			if !ex.keyOf(sb, x.V, depth+1) {
				return false
			}
			sb.WriteString("),")
		}
	case nil:
		sb.WriteString("none,")
	default:
		return false
	}
	return true
}

// blobKey: structural identity of an opaque encoding (same key => same bytes).
func (ex *Exec) blobKey(b *Blob) string {
	var sb strings.Builder
	ok := true
	switch {
	case b.Pack != nil:
		m := b.Pack.method
		if b.Pack.skip >= 4 {
			m = ""
		}
		fmt.Fprintf(&sb, "pack:%s:%s:%d:", b.Pack.abi, m, b.Pack.skip)
		for _, a := range b.Pack.args {
			ok = ok && ex.keyOf(&sb, a, 0)
		}
	case b.Str != nil:
		sb.WriteString("str:")
		ok = ex.keyOf(&sb, *b.Str, 0)
	default:
		if b.Typ != nil {
			sb.WriteString("msg:" + b.Typ.String() + ":")
		}
		ok = ex.keyOf(&sb, b.V, 0)
	}
	if !ok {
		return ""
	}
	return sb.String()
}
