package main

import (
	"fmt"
	"go/types"
	"math/big"
	"strings"

	"golang.org/x/tools/go/ssa"
)

type Value interface{}

type Int struct{ T *Term }   // any Go integer kind (width given by static type)
type BoolV struct{ T *Term } // bool
type Float struct{ T *Term } // float64 as exact Real
type Big struct{ T *Term }   // a math/big.Int struct value

// Str is a string. Exactly one representation is in use: B (explicit bytes), Enc (abstract encoding), Opq (opaque text).
type Str struct {
	B   []*Term
	Enc *Enc
	Opq *OpqStr
}

// Enc is an abstractly encoded string: an injective text encoding of Data.
type Enc struct {
	Kind string  // "acc" "val" "cons" (bech32 with the chain's prefixes), "hex" (EIP-55 42 chars), "dec" decimal numeral of an int
	Data []*Term // payload bytes (or a single Int for "dec")
}

type OpqStr struct {
	Key  string // structural identity (same key => same text)
	ID   int
	Desc string
	Args []Value
}

type Struct struct{ F []Value }
type Array struct{ E []Value }

type Obj struct {
	V   Value
	ID  int
	Typ types.Type
	// for debugging
	Site string
}

type Ptr struct {
	O    *Obj
	Path []int
}

type Slice struct {
	P    Ptr // pointer to an Array value
	Off  int
	Len  int
	Cap  int
	Blob *Blob // marshalled message (opaque bytes)
}

// Blob is the opaque byte encoding of a value (codec model: lossless).
type Blob struct {
	V     Value      // deep-frozen value (pointers lead to private objects)
	Typ   types.Type // static type of V (pointer-to-struct for messages)
	Empty *Term      // Bool: encoding has length 0
	ID    int
	digest *Term
	key    string
	Pack  *abiPack // when set: output of abi.Pack (selector + injective encoding of the arguments)
	Str   *Str // when set: the bytes of an abstract (encoded/opaque) string rather than a message
}

type Iface struct {
	T types.Type
	V Value
}

type MapObj struct {
	Keys  []Value
	Vals  []Value
	KT    types.Type
	VT    types.Type
	Epoch int
}
type Map struct{ M *MapObj }

type Func struct {
	Fn      *ssa.Function
	Bind    []Value
	Builtin *ssa.Builtin
	Native  func(ex *Exec, args []Value) Value // engine-provided closure (e.g. cms.Write)
}

type Tuple []Value

// Opaque is a handle to something the engine does not look into.
type Opaque struct {
	Desc string
	Data interface{}
}

// iterator for Range/Next
type MapIter struct {
	M     *MapObj
	Keys  []Value
	Vals  []Value
	Left  []int
	IsStr bool
	S     Str
	Pos   int
}

func (p Ptr) IsNil() bool { return p.O == nil }

func isBigInt(t types.Type) bool {
	n, ok := t.(*types.Named)
	if !ok {
		return false
	}
	o := n.Obj()
	return o.Pkg() != nil && o.Pkg().Path() == "math/big" && o.Name() == "Int"
}

func isNamed(t types.Type, pkg, name string) bool {
	if p, ok := t.(*types.Pointer); ok {
		t = p.Elem()
	}
	n, ok := t.(*types.Named)
	if !ok {
		return false
	}
	o := n.Obj()
	return o.Pkg() != nil && o.Pkg().Path() == pkg && o.Name() == name
}

func (ex *Exec) zero(t types.Type) Value {
	if isBigInt(t) {
		return Big{ex.tf.I64(0)}
	}
	switch u := t.Underlying().(type) {
	case *types.Basic:
		switch {
		case u.Info()&types.IsBoolean != 0:
			return BoolV{ex.tf.False}
		case u.Info()&types.IsInteger != 0:
			return Int{ex.tf.I64(0)}
		case u.Info()&types.IsFloat != 0:
			return Float{ex.tf.Real(new(big.Rat))}
		case u.Info()&types.IsString != 0:
			return Str{}
		case u.Kind() == types.UnsafePointer:
			return Ptr{}
		case u.Kind() == types.UntypedNil:
			return Iface{}
		}
		panic(engineErr("zero of basic type " + u.String()))
	case *types.Pointer:
		return Ptr{}
	case *types.Slice:
		return Slice{}
	case *types.Map:
		return Map{}
	case *types.Chan:
		return Opaque{Desc: "nil chan"}
	case *types.Signature:
		return Func{}
	case *types.Interface:
		return Iface{}
	case *types.Struct:
		fs := make([]Value, u.NumFields())
		for i := range fs {
			fs[i] = ex.zero(u.Field(i).Type())
		}
		return Struct{fs}
	case *types.Array:
		es := make([]Value, u.Len())
		if u.Len() > 0 {
			z := ex.zero(u.Elem())
			for i := range es {
				es[i] = z
			}
		}
		return Array{es}
	case *types.Tuple:
		tv := make(Tuple, u.Len())
		for i := range tv {
			tv[i] = ex.zero(u.At(i).Type())
		}
		return tv
	}
	panic(engineErr("zero of type " + t.String()))
}

func (ex *Exec) newObj(v Value, t types.Type) *Obj {
	ex.objCount++
	return &Obj{V: v, ID: ex.objCount, Typ: t}
}

func navigate(v Value, path []int) Value {
	for _, i := range path {
		switch x := v.(type) {
		case Struct:
			v = x.F[i]
		case Array:
			if i < 0 || i >= len(x.E) {
				panic(engineErr("internal: array path out of range"))
			}
			v = x.E[i]
		default:
			panic(engineErr(fmt.Sprintf("internal: navigate into %T", v)))
		}
	}
	return v
}

func update(v Value, path []int, nv Value) Value {
	if len(path) == 0 {
		return nv
	}
	i := path[0]
	switch x := v.(type) {
	case Struct:
		fs := make([]Value, len(x.F))
		copy(fs, x.F)
		fs[i] = update(x.F[i], path[1:], nv)
		return Struct{fs}
	case Array:
		es := make([]Value, len(x.E))
		copy(es, x.E)
		es[i] = update(x.E[i], path[1:], nv)
		return Array{es}
	}
	panic(engineErr(fmt.Sprintf("internal: update into %T", v)))
}

func (ex *Exec) load(p Ptr) Value {
	if p.O == nil {
		ex.goPanic("runtime error: invalid memory address or nil pointer dereference")
	}
	return navigate(p.O.V, p.Path)
}

func (ex *Exec) store(p Ptr, v Value) {
	if p.O == nil {
		ex.goPanic("runtime error: invalid memory address or nil pointer dereference")
	}
	if len(p.Path) == 0 {
		p.O.V = v
		return
	}
	// fast path for arrays of depth 1 owned by slices: in-place (objects are private to the path)
	if len(p.Path) == 1 {
		if a, ok := p.O.V.(Array); ok {
			a.E[p.Path[0]] = v // arrays held directly in an Obj are never shared (copy on load below)
			return
		}
	}
	p.O.V = update(p.O.V, p.Path, v)
}

// copyVal makes a value safe to hold independently of in-place array updates (see store fast path).
func copyVal(v Value) Value {
	switch x := v.(type) {
	case Array:
		es := make([]Value, len(x.E))
		for i, e := range x.E {
			es[i] = copyVal(e)
		}
		return Array{es}
	case Struct:
		need := false
		for _, f := range x.F {
			switch f.(type) {
			case Array, Struct:
				need = true
			}
		}
		if !need {
			return x
		}
		fs := make([]Value, len(x.F))
		for i, f := range x.F {
			fs[i] = copyVal(f)
		}
		return Struct{fs}
	}
	return v
}

func ptrExtend(p Ptr, i int) Ptr {
	np := make([]int, len(p.Path)+1)
	copy(np, p.Path)
	np[len(p.Path)] = i
	return Ptr{p.O, np}
}

func samePath(a, b []int) bool {
	if len(a) != len(b) {
		return false
	}
	for i := range a {
		if a[i] != b[i] {
			return false
		}
	}
	return true
}

// slice helpers
func (ex *Exec) sliceElemPtr(s Slice, i int) Ptr {
	return ptrExtend(s.P, s.Off+i)
}

func (ex *Exec) sliceGet(s Slice, i int) Value {
	arr := navigate(s.P.O.V, s.P.Path).(Array)
	return arr.E[s.Off+i]
}

func (ex *Exec) sliceElems(s Slice) []Value {
	if s.Len == 0 {
		return nil
	}
	if s.Blob != nil {
		panic(engineErr("bytes of a marshalled message are opaque (codec model)"))
	}
	arr := navigate(s.P.O.V, s.P.Path).(Array)
	out := make([]Value, s.Len)
	copy(out, arr.E[s.Off:s.Off+s.Len])
	return out
}

func (ex *Exec) mkSlice(elems []Value, elemT types.Type) Slice {
	es := make([]Value, len(elems))
	copy(es, elems)
	o := ex.newObj(Array{es}, types.NewArray(elemT, int64(len(es))))
	return Slice{P: Ptr{O: o}, Len: len(es), Cap: len(es)}
}

var byteType = types.Typ[types.Uint8]

func (ex *Exec) bytesSlice(bs []*Term) Slice {
	es := make([]Value, len(bs))
	for i, b := range bs {
		es[i] = Int{b}
	}
	o := ex.newObj(Array{es}, types.NewArray(byteType, int64(len(es))))
	return Slice{P: Ptr{O: o}, Len: len(es), Cap: len(es)}
}

func (ex *Exec) sliceBytes(s Slice) []*Term {
	vs := ex.sliceElems(s)
	out := make([]*Term, len(vs))
	for i, v := range vs {
		out[i] = v.(Int).T
	}
	return out
}

func (ex *Exec) strConst(s string) Str {
	bs := make([]*Term, len(s))
	for i := 0; i < len(s); i++ {
		bs[i] = ex.tf.I64(int64(s[i]))
	}
	return Str{B: bs}
}

// concreteString returns the Go string if every byte is concrete.
func concreteString(s Str) (string, bool) {
	if s.Enc != nil || s.Opq != nil {
		return "", false
	}
	var sb strings.Builder
	for _, b := range s.B {
		if !b.IsConst() {
			return "", false
		}
		sb.WriteByte(byte(b.C.Int64()))
	}
	return sb.String(), true
}

func concreteInt(v Value) (int64, bool) {
	i, ok := v.(Int)
	if !ok || !i.T.IsConst() {
		return 0, false
	}
	return i.T.C.Int64(), true
}

func (ex *Exec) mustInt(v Value, what string) int {
	i, ok := v.(Int)
	if !ok {
		panic(engineErr(fmt.Sprintf("expected int for %s, got %T", what, v)))
	}
	if !i.T.IsConst() {
		// ask the solver whether the value is unique under the path condition
		if c := ex.uniqueValue(i.T); c != nil {
			return int(c.Int64())
		}
		panic(engineErr("symbolic " + what + " (only concrete lengths/indices are supported): " + i.T.String()))
	}
	return int(i.T.C.Int64())
}

func describe(v Value) string {
	switch x := v.(type) {
	case Int:
		return x.T.String()
	case BoolV:
		return x.T.String()
	case Big:
		return "big(" + x.T.String() + ")"
	case Str:
		if s, ok := concreteString(x); ok {
			return fmt.Sprintf("%q", s)
		}
		if x.Enc != nil {
			return "enc:" + x.Enc.Kind
		}
		if x.Opq != nil {
			return "opaque:" + x.Opq.Desc
		}
		return fmt.Sprintf("str[%d]", len(x.B))
	case Ptr:
		if x.O == nil {
			return "nil"
		}
		return fmt.Sprintf("&obj%d%v", x.O.ID, x.Path)
	case Iface:
		if x.T == nil {
			return "nil"
		}
		return "iface(" + x.T.String() + ")"
	case Opaque:
		return "opaque(" + x.Desc + ")"
	}
	return fmt.Sprintf("%T", v)
}

func typesIdentical(a, b types.Type) bool { return types.Identical(a, b) }
