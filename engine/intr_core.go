package main

import (
	"crypto/sha256"
	"fmt"
	"go/types"
	"math/big"
	"strconv"
	"strings"

	"golang.org/x/tools/go/ssa"
)

type intrinsic func(ex *Exec, args []Value, caller *Frame) Value

var intrinsics = map[string]intrinsic{}

const vrtPkg = "github.com/MinterTeam/mhub2/module/x/zzverif/vrt"

// blocked reports dependency functions that must never be entered (they would need goroutines, reflection…).
func blocked(fn *ssa.Function) bool {
	if fn.Pkg == nil {
		return false
	}
	p := fn.Pkg.Pkg.Path()
	switch p {
	case "reflect", "internal/reflectlite", "runtime", "unsafe", "syscall", "os", "net", "time/tzdata":
		return true
	}
	return false
}

func (ex *Exec) bigOf(v Value) *Term {
	p, ok := v.(Ptr)
	if !ok {
		panic(engineErr(fmt.Sprintf("expected *big.Int, got %T", v)))
	}
	if p.O == nil {
		ex.goPanic("runtime error: invalid memory address or nil pointer dereference (nil *big.Int)")
	}
	b, ok := navigate(p.O.V, p.Path).(Big)
	if !ok {
		panic(engineErr(fmt.Sprintf("expected big.Int object, got %T", navigate(p.O.V, p.Path))))
	}
	return b.T
}

func (ex *Exec) setBig(v Value, t *Term) Value {
	p := v.(Ptr)
	if p.O == nil {
		ex.goPanic("runtime error: invalid memory address or nil pointer dereference (nil *big.Int receiver)")
	}
	ex.store(p, Big{t})
	return p
}

func (ex *Exec) newBig(t *Term) Ptr {
	return Ptr{O: ex.newObj(Big{t}, nil)}
}

func (ex *Exec) strArg(v Value) string {
	s, ok := v.(Str)
	if !ok {
		panic(engineErr("expected string"))
	}
	cs, ok := concreteString(s)
	if !ok {
		panic(engineErr("expected a concrete string (harness name)"))
	}
	return cs
}

func (ex *Exec) declNondet(name string, s Sort, lo, hi *big.Int) *Term {
	if t, ok := ex.nondets[name]; ok {
		return t
	}
	t := ex.tf.Var(name, s, lo, hi)
	ex.nondets[name] = t
	ex.ndOrder = append(ex.ndOrder, name)
	return t
}

func (ex *Exec) checkDivZero(y *Term) {
	f := ex.tf
	if y.IsConst() {
		if y.C.Sign() == 0 {
			ex.goPanic("division by zero")
		}
		return
	}
	if ex.branchNoSite(f.Eq(y, f.I64(0))) {
		ex.goPanic("division by zero")
	}
}

func callerPos(ex *Exec, fr *Frame) string {
	if fr == nil || fr.block == nil {
		return ""
	}
	for _, ins := range fr.block.Instrs {
		if c, ok := ins.(*ssa.Call); ok && c.Pos().IsValid() {
			_ = c
		}
	}
	return fr.fn.String()
}

func init() {
	reg := func(name string, f intrinsic) { intrinsics[name] = f }
	v := func(n string) string { return vrtPkg + "." + n }

	// ---------------- vrt: harness runtime ----------------
	reg(v("Int"), func(ex *Exec, a []Value, _ *Frame) Value {
		return ex.newBig(ex.declNondet(ex.strArg(a[0]), SInt, nil, nil))
	})
	reg(v("IntRange"), func(ex *Exec, a []Value, _ *Frame) Value {
		lo, hi := ex.bigOf(a[1]), ex.bigOf(a[2])
		if !lo.IsConst() || !hi.IsConst() {
			panic(engineErr("IntRange bounds must be concrete"))
		}
		return ex.newBig(ex.declNondet(ex.strArg(a[0]), SInt, lo.C, hi.C))
	})
	reg(v("Uint64"), func(ex *Exec, a []Value, _ *Frame) Value {
		lo, hi := typeRange(types.Typ[types.Uint64])
		return Int{ex.declNondet(ex.strArg(a[0]), SInt, lo, hi)}
	})
	reg(v("Uint64Below"), func(ex *Exec, a []Value, _ *Frame) Value {
		b := a[1].(Int).T
		if !b.IsConst() {
			panic(engineErr("Uint64Below bound must be concrete"))
		}
		return Int{ex.declNondet(ex.strArg(a[0]), SInt, big0, new(big.Int).Sub(b.C, big1))}
	})
	reg(v("Int64"), func(ex *Exec, a []Value, _ *Frame) Value {
		lo, hi := typeRange(types.Typ[types.Int64])
		return Int{ex.declNondet(ex.strArg(a[0]), SInt, lo, hi)}
	})
	reg(v("Int64Range"), func(ex *Exec, a []Value, _ *Frame) Value {
		lo, hi := a[1].(Int).T, a[2].(Int).T
		return Int{ex.declNondet(ex.strArg(a[0]), SInt, lo.C, hi.C)}
	})
	reg(v("Byte"), func(ex *Exec, a []Value, _ *Frame) Value {
		return Int{ex.declNondet(ex.strArg(a[0]), SInt, big0, big.NewInt(255))}
	})
	reg(v("Bool"), func(ex *Exec, a []Value, _ *Frame) Value {
		return BoolV{ex.declNondet(ex.strArg(a[0]), SBool, nil, nil)}
	})
	reg(v("Bytes"), func(ex *Exec, a []Value, _ *Frame) Value {
		name := ex.strArg(a[0])
		n := ex.mustInt(a[1], "Bytes length")
		bs := make([]*Term, n)
		for i := range bs {
			bs[i] = ex.declNondet(fmt.Sprintf("%s[%d]", name, i), SInt, big0, big.NewInt(255))
		}
		return ex.bytesSlice(bs)
	})
	reg(v("Choose"), func(ex *Exec, a []Value, _ *Frame) Value {
		name := ex.strArg(a[0])
		n := ex.mustInt(a[1], "Choose arity")
		if k, ok := ex.choices[name]; ok && k < n {
			return Int{ex.tf.I64(int64(k))} // a named choice is made once per path
		}
		k := ex.choose(n, name)
		ex.choices[name] = k
		return Int{ex.tf.I64(int64(k))}
	})
	reg(v("Len"), func(ex *Exec, a []Value, _ *Frame) Value {
		name := ex.strArg(a[0])
		lo, hi := ex.mustInt(a[1], "Len lo"), ex.mustInt(a[2], "Len hi")
		if k, ok := ex.choices[name]; ok && k >= lo && k <= hi {
			return Int{ex.tf.I64(int64(k))}
		}
		k := lo + ex.choose(hi-lo+1, name)
		ex.choices[name] = k
		return Int{ex.tf.I64(int64(k))}
	})
	reg(v("Assume"), func(ex *Exec, a []Value, _ *Frame) Value {
		c := ex.asBool(a[0])
		if c.IsConst() {
			if !c.B {
				panic(&PathEnd{"assume(false)"})
			}
			return nil
		}
		if !ex.replaying() && ex.solver.CheckWith(c) == Unsat {
			panic(&PathEnd{"assumption infeasible"})
		}
		ex.assume(c)
		return nil
	})
	reg(v("Assert"), func(ex *Exec, a []Value, fr *Frame) Value {
		ex.assertObl(ex.strArg(a[0]), ex.asBool(a[1]), "", false)
		return nil
	})
	reg(v("Check"), func(ex *Exec, a []Value, fr *Frame) Value {
		// an obligation that is independent of the ones that follow: recorded, nothing is assumed afterwards
		ex.assertObl(ex.strArg(a[0]), ex.asBool(a[1]), "", true)
		return nil
	})
	reg(v("Reach"), func(ex *Exec, a []Value, _ *Frame) Value {
		ex.outcome.Reached = append(ex.outcome.Reached, ex.strArg(a[0]))
		return nil
	})
	reg(v("Thorough"), func(ex *Exec, a []Value, _ *Frame) Value { return BoolV{ex.tf.Bool(curTier == "thorough")} })
	reg(v("Symbolic"), func(ex *Exec, a []Value, _ *Frame) Value { return BoolV{ex.tf.True} })
	reg(v("Panics"), func(ex *Exec, a []Value, fr *Frame) (ret Value) {
		ret = BoolV{ex.tf.False}
		defer func() {
			if r := recover(); r != nil {
				if gp, ok := r.(*GoPanic); ok {
					ex.lastPanic = gp.Msg
					ret = BoolV{ex.tf.True}
					return
				}
				panic(r)
			}
		}()
		ex.callValue(a[0], nil, nil, fr)
		return
	})
	reg(v("Note"), func(ex *Exec, a []Value, _ *Frame) Value {
		ex.noteAssumption(ex.strArg(a[0]))
		return nil
	})
	reg(v("EncAcc"), func(ex *Exec, a []Value, _ *Frame) Value { // []byte -> bech32 account string (abstract)
		return Str{Enc: &Enc{Kind: "acc", Data: ex.sliceBytes(a[0].(Slice))}}
	})

	// ---------------- math/big ----------------
	reg("math/big.NewInt", func(ex *Exec, a []Value, _ *Frame) Value { return ex.newBig(a[0].(Int).T) })
	bin := func(op func(ex *Exec, x, y *Term) *Term) intrinsic {
		return func(ex *Exec, a []Value, _ *Frame) Value {
			x, y := ex.bigOf(a[1]), ex.bigOf(a[2])
			return ex.setBig(a[0], op(ex, x, y))
		}
	}
	reg("(*math/big.Int).Add", bin(func(ex *Exec, x, y *Term) *Term { return ex.tf.Add(x, y) }))
	reg("(*math/big.Int).Sub", bin(func(ex *Exec, x, y *Term) *Term { return ex.tf.Sub(x, y) }))
	reg("(*math/big.Int).Mul", bin(func(ex *Exec, x, y *Term) *Term { return ex.tf.Mul(x, y) }))
	reg("(*math/big.Int).Quo", bin(func(ex *Exec, x, y *Term) *Term { ex.checkDivZero(y); return ex.tf.TDiv(x, y) }))
	reg("(*math/big.Int).Rem", bin(func(ex *Exec, x, y *Term) *Term { ex.checkDivZero(y); return ex.tf.TRem(x, y) }))
	reg("(*math/big.Int).Div", bin(func(ex *Exec, x, y *Term) *Term { ex.checkDivZero(y); return ex.tf.Div(x, y) }))
	reg("(*math/big.Int).Mod", bin(func(ex *Exec, x, y *Term) *Term { ex.checkDivZero(y); return ex.tf.Mod(x, y) }))
	reg("(*math/big.Int).QuoRem", func(ex *Exec, a []Value, _ *Frame) Value {
		x, y := ex.bigOf(a[1]), ex.bigOf(a[2])
		ex.checkDivZero(y)
		q, r := ex.tf.TDiv(x, y), ex.tf.TRem(x, y)
		ex.setBig(a[0], q)
		ex.setBig(a[3], r)
		return Tuple{a[0], a[3]}
	})
	reg("(*math/big.Int).DivMod", func(ex *Exec, a []Value, _ *Frame) Value {
		x, y := ex.bigOf(a[1]), ex.bigOf(a[2])
		ex.checkDivZero(y)
		q, r := ex.tf.Div(x, y), ex.tf.Mod(x, y)
		ex.setBig(a[0], q)
		ex.setBig(a[3], r)
		return Tuple{a[0], a[3]}
	})
	reg("(*math/big.Int).Set", func(ex *Exec, a []Value, _ *Frame) Value { return ex.setBig(a[0], ex.bigOf(a[1])) })
	reg("(*math/big.Int).SetInt64", func(ex *Exec, a []Value, _ *Frame) Value { return ex.setBig(a[0], a[1].(Int).T) })
	reg("(*math/big.Int).SetUint64", func(ex *Exec, a []Value, _ *Frame) Value { return ex.setBig(a[0], a[1].(Int).T) })
	reg("(*math/big.Int).Neg", func(ex *Exec, a []Value, _ *Frame) Value { return ex.setBig(a[0], ex.tf.Neg(ex.bigOf(a[1]))) })
	reg("(*math/big.Int).Abs", func(ex *Exec, a []Value, _ *Frame) Value { return ex.setBig(a[0], ex.tf.Abs(ex.bigOf(a[1]))) })
	reg("(*math/big.Int).Sign", func(ex *Exec, a []Value, _ *Frame) Value {
		f := ex.tf
		x := ex.bigOf(a[0])
		return Int{f.Ite(f.Lt(x, f.I64(0)), f.I64(-1), f.Ite(f.Eq(x, f.I64(0)), f.I64(0), f.I64(1)))}
	})
	reg("(*math/big.Int).Cmp", func(ex *Exec, a []Value, _ *Frame) Value {
		f := ex.tf
		x, y := ex.bigOf(a[0]), ex.bigOf(a[1])
		return Int{f.Ite(f.Lt(x, y), f.I64(-1), f.Ite(f.Eq(x, y), f.I64(0), f.I64(1)))}
	})
	reg("(*math/big.Int).CmpAbs", func(ex *Exec, a []Value, _ *Frame) Value {
		f := ex.tf
		x, y := f.Abs(ex.bigOf(a[0])), f.Abs(ex.bigOf(a[1]))
		return Int{f.Ite(f.Lt(x, y), f.I64(-1), f.Ite(f.Eq(x, y), f.I64(0), f.I64(1)))}
	})
	reg("(*math/big.Int).BitLen", func(ex *Exec, a []Value, _ *Frame) Value { return Int{ex.tf.BitLen(ex.bigOf(a[0]))} })
	reg("(*math/big.Int).Bit", func(ex *Exec, a []Value, _ *Frame) Value {
		f := ex.tf
		x := ex.bigOf(a[0])
		i := ex.mustInt(a[1], "Bit index")
		if x.IsConst() {
			return Int{f.I64(int64(x.C.Bit(i)))}
		}
		// two's complement semantics for negatives: bit i of x = floor(x / 2^i) mod 2
		return Int{f.Mod(f.Div(x, f.Int(pow2(i))), f.I64(2))}
	})
	reg("(*math/big.Int).IsInt64", func(ex *Exec, a []Value, _ *Frame) Value {
		f := ex.tf
		x := ex.bigOf(a[0])
		lo, hi := typeRange(types.Typ[types.Int64])
		return BoolV{f.And(f.Le(f.Int(lo), x), f.Le(x, f.Int(hi)))}
	})
	reg("(*math/big.Int).IsUint64", func(ex *Exec, a []Value, _ *Frame) Value {
		f := ex.tf
		x := ex.bigOf(a[0])
		_, hi := typeRange(types.Typ[types.Uint64])
		return BoolV{f.And(f.Le(f.I64(0), x), f.Le(x, f.Int(hi)))}
	})
	reg("(*math/big.Int).Int64", func(ex *Exec, a []Value, _ *Frame) Value {
		return Int{ex.wrap(ex.bigOf(a[0]), types.Typ[types.Int64])}
	})
	reg("(*math/big.Int).Uint64", func(ex *Exec, a []Value, _ *Frame) Value {
		// low 64 bits of |x|
		return Int{ex.wrap(ex.tf.Abs(ex.bigOf(a[0])), types.Typ[types.Uint64])}
	})
	reg("(*math/big.Int).Exp", func(ex *Exec, a []Value, _ *Frame) Value {
		f := ex.tf
		x, y := ex.bigOf(a[1]), ex.bigOf(a[2])
		if mp := a[3].(Ptr); mp.O != nil {
			m := ex.bigOf(a[3])
			if !(m.IsConst() && m.C.Sign() == 0) {
				panic(engineErr("modular big.Int.Exp"))
			}
		}
		if x.IsConst() && y.IsConst() {
			if y.C.Sign() <= 0 {
				return ex.setBig(a[0], f.I64(1))
			}
			if y.C.BitLen() > 12 {
				panic(engineErr("big.Int.Exp with a huge exponent"))
			}
			return ex.setBig(a[0], f.Int(new(big.Int).Exp(x.C, y.C, nil)))
		}
		if x.IsConst() && y.Lo != nil && y.Hi != nil && y.Hi.Cmp(big.NewInt(128)) <= 0 {
			// table over the bounded exponent
			lo, hi := int(y.Lo.Int64()), int(y.Hi.Int64())
			if lo < 0 {
				lo = 0
			}
			res := f.Int(new(big.Int).Exp(x.C, big.NewInt(int64(hi)), nil))
			for e := hi - 1; e >= lo; e-- {
				res = f.Ite(f.Eq(y, f.I64(int64(e))), f.Int(new(big.Int).Exp(x.C, big.NewInt(int64(e)), nil)), res)
			}
			if y.Lo.Sign() < 0 {
				res = f.Ite(f.Le(y, f.I64(0)), f.I64(1), res)
			}
			if res.Lo == nil {
				res = f.withBounds(res, big1, nil)
			}
			return ex.setBig(a[0], res)
		}
		if y.IsConst() && y.C.IsInt64() && y.C.Int64() >= 0 && y.C.Int64() <= 8 {
			res := f.I64(1)
			for i := int64(0); i < y.C.Int64(); i++ {
				res = f.Mul(res, x)
			}
			return ex.setBig(a[0], res)
		}
		panic(engineErr("big.Int.Exp with symbolic base/unbounded exponent"))
	})
	reg("(*math/big.Int).Lsh", func(ex *Exec, a []Value, _ *Frame) Value {
		n := ex.mustInt(a[2], "Lsh amount")
		return ex.setBig(a[0], ex.tf.Mul(ex.bigOf(a[1]), ex.tf.Int(pow2(n))))
	})
	reg("(*math/big.Int).Rsh", func(ex *Exec, a []Value, _ *Frame) Value {
		n := ex.mustInt(a[2], "Rsh amount")
		return ex.setBig(a[0], ex.tf.Div(ex.bigOf(a[1]), ex.tf.Int(pow2(n))))
	})
	reg("(*math/big.Int).Bytes", func(ex *Exec, a []Value, _ *Frame) Value {
		f := ex.tf
		x := f.Abs(ex.bigOf(a[0]))
		if x.IsConst() {
			var bs []*Term
			for _, b := range x.C.Bytes() {
				bs = append(bs, f.I64(int64(b)))
			}
			return ex.bytesSlice(bs)
		}
		// minimal big-endian encoding: the length depends on the value: fork over the byte length (<= 33)
		maxN := 33
		if x.Hi != nil {
			maxN = (x.Hi.BitLen() + 7) / 8
		}
		for n := 0; n <= maxN; n++ {
			var c *Term
			if n == 0 {
				c = f.Eq(x, f.I64(0))
			} else if n == maxN {
				c = f.Le(f.Int(pow256(n-1)), x)
			} else {
				c = f.And(f.Le(f.Int(pow256(n-1)), x), f.Lt(x, f.Int(pow256(n))))
			}
			if n == maxN && x.Hi == nil {
				if ex.branchNoSite(c) {
					panic(engineErr("big.Int.Bytes of a value not known to be below 2^264"))
				}
				break
			}
			if ex.branchNoSite(c) {
				bs := make([]*Term, n)
				for i := range bs {
					bs[i] = f.ByteOf(x, i, n)
				}
				return ex.bytesSlice(bs)
			}
		}
		panic(&PathEnd{"big.Int.Bytes: no feasible length"})
	})
	reg("(*math/big.Int).FillBytes", func(ex *Exec, a []Value, _ *Frame) Value {
		f := ex.tf
		x := f.Abs(ex.bigOf(a[0]))
		buf := a[1].(Slice)
		n := buf.Len
		fits := f.Lt(x, f.Int(pow256(n)))
		if !ex.branchNoSite(fits) {
			ex.goPanic("math/big: buffer too small to fit value")
		}
		for i := 0; i < n; i++ {
			ex.store(ex.sliceElemPtr(buf, i), Int{f.ByteOf(x, i, n)})
		}
		return buf
	})
	reg("(*math/big.Int).SetBytes", func(ex *Exec, a []Value, _ *Frame) Value {
		return ex.setBig(a[0], ex.tf.FromBytes(ex.sliceBytes(a[1].(Slice))))
	})
	reg("(*math/big.Int).String", func(ex *Exec, a []Value, _ *Frame) Value {
		p := a[0].(Ptr)
		if p.O == nil {
			return ex.strConst("<nil>")
		}
		x := ex.bigOf(a[0])
		if x.IsConst() {
			return ex.strConst(x.C.String())
		}
		return Str{Enc: &Enc{Kind: "dec", Data: []*Term{x}}}
	})
	reg("(*math/big.Int).SetString", func(ex *Exec, a []Value, _ *Frame) Value {
		s := a[1].(Str)
		base := ex.mustInt(a[2], "base")
		if s.Enc != nil && s.Enc.Kind == "dec" && (base == 10 || base == 0) {
			ex.setBig(a[0], s.Enc.Data[0])
			return Tuple{a[0], BoolV{ex.tf.True}}
		}
		if cs, ok := concreteString(s); ok {
			v, ok2 := new(big.Int).SetString(cs, base)
			if !ok2 {
				return Tuple{Ptr{}, BoolV{ex.tf.False}}
			}
			ex.setBig(a[0], ex.tf.Int(v))
			return Tuple{a[0], BoolV{ex.tf.True}}
		}
		if base == 0 {
			val, ok := ex.parseBase0(ex.strBytes(s))
			if ok {
				ex.setBig(a[0], val)
				return Tuple{a[0], BoolV{ex.tf.True}}
			}
			return Tuple{Ptr{}, BoolV{ex.tf.False}}
		}
		if base == 10 {
			val, okT := ex.parseDecimal(ex.strBytes(s), true)
			if ex.branchNoSite(okT) {
				ex.setBig(a[0], val)
				return Tuple{a[0], BoolV{ex.tf.True}}
			}
			return Tuple{Ptr{}, BoolV{ex.tf.False}}
		}
		panic(engineErr("big.Int.SetString of a symbolic string"))
	})
	reg("(*math/big.Int).MarshalText", func(ex *Exec, a []Value, _ *Frame) Value {
		panic(engineErr("big.Int.MarshalText"))
	})

	// ---------------- encoding/binary ----------------
	for _, w := range []int{2, 4, 8} {
		w := w
		nm := map[int]string{2: "16", 4: "32", 8: "64"}[w]
		reg("(encoding/binary.bigEndian).Uint"+nm, func(ex *Exec, a []Value, _ *Frame) Value {
			s := a[1].(Slice)
			if s.Len < w {
				ex.goPanic("runtime error: index out of range [7] with length " + strconv.Itoa(s.Len))
			}
			bs := ex.sliceBytes(s)[:w]
			return Int{ex.tf.FromBytes(bs)}
		})
		reg("(encoding/binary.bigEndian).PutUint"+nm, func(ex *Exec, a []Value, _ *Frame) Value {
			s := a[1].(Slice)
			if s.Len < w {
				ex.goPanic("runtime error: index out of range")
			}
			x := a[2].(Int).T
			for i := 0; i < w; i++ {
				ex.store(ex.sliceElemPtr(s, i), Int{ex.tf.ByteOf(x, i, w)})
			}
			return nil
		})
	}

	// ---------------- bytes / bytealg ----------------
	reg("bytes.Equal", func(ex *Exec, a []Value, _ *Frame) Value { return BoolV{ex.sliceEq(a[0].(Slice), a[1].(Slice))} })
	reg("bytes.Compare", func(ex *Exec, a []Value, _ *Frame) Value {
		return Int{ex.bytesCompare(ex.sliceBytes(a[0].(Slice)), ex.sliceBytes(a[1].(Slice)))}
	})
	reg("internal/bytealg.Compare", intrinsics["bytes.Compare"])
	reg("bytes.IndexByte", func(ex *Exec, a []Value, _ *Frame) Value {
		bs := ex.sliceBytes(a[0].(Slice))
		return ex.indexByte(bs, a[1].(Int).T)
	})
	reg("internal/bytealg.IndexByte", intrinsics["bytes.IndexByte"])
	reg("internal/bytealg.IndexByteString", func(ex *Exec, a []Value, _ *Frame) Value {
		return ex.indexByte(ex.strBytes(a[0].(Str)), a[1].(Int).T)
	})
	reg("strings.IndexByte", intrinsics["internal/bytealg.IndexByteString"])

	// ---------------- hashing (uninterpreted, injective) ----------------
	reg("crypto/sha256.Sum256", func(ex *Exec, a []Value, _ *Frame) Value {
		return ex.hashArray("sha256", ex.sliceBytesOrBlob(a[0].(Slice)), 32)
	})
	reg("github.com/tendermint/tendermint/crypto/tmhash.Sum", func(ex *Exec, a []Value, _ *Frame) Value {
		arr := ex.hashArray("sha256", ex.sliceBytesOrBlob(a[0].(Slice)), 32).(Array)
		return ex.mkSlice(arr.E, byteType)
	})
	reg("github.com/ethereum/go-ethereum/crypto.Keccak256Hash", func(ex *Exec, a []Value, _ *Frame) Value {
		var pre []*Term
		for _, s := range ex.sliceElems(a[0].(Slice)) {
			pre = append(pre, ex.sliceBytesOrBlob(s.(Slice))...)
		}
		return ex.hashArray("keccak256", pre, 32)
	})
	reg("github.com/ethereum/go-ethereum/crypto.Keccak256", func(ex *Exec, a []Value, _ *Frame) Value {
		var pre []*Term
		for _, s := range ex.sliceElems(a[0].(Slice)) {
			pre = append(pre, ex.sliceBytesOrBlob(s.(Slice))...)
		}
		arr := ex.hashArray("keccak256", pre, 32).(Array)
		return ex.mkSlice(arr.E, byteType)
	})

	// ---------------- fmt / errors / strconv ----------------
	reg("fmt.Sprintf", func(ex *Exec, a []Value, _ *Frame) Value { return ex.sprintf(a[0].(Str), a[1].(Slice)) })
	reg("fmt.Sprint", func(ex *Exec, a []Value, _ *Frame) Value {
		args := ex.sliceElems(a[0].(Slice))
		if len(args) == 1 {
			if s, ok := ex.textOf(args[0]); ok {
				return s
			}
		}
		return Str{Opq: ex.newOpq("fmt.Sprint", args)}
	})
	reg("fmt.Errorf", func(ex *Exec, a []Value, _ *Frame) Value {
		msg := ex.sprintf(a[0].(Str), a[1].(Slice))
		return ex.mkError(msg)
	})
	reg("fmt.Println", func(ex *Exec, a []Value, _ *Frame) Value {
		return Tuple{Int{ex.tf.I64(0)}, Iface{}}
	})
	reg("fmt.Printf", intrinsics["fmt.Println"])
	reg("runtime.Callers", func(ex *Exec, a []Value, _ *Frame) Value { return Int{ex.tf.I64(0)} })
	reg("github.com/pkg/errors.callers", func(ex *Exec, a []Value, _ *Frame) Value {
		// an empty (non-nil) stack: stack traces are diagnostics only
		t := ex.namedType("github.com/pkg/errors", "stack")
		return Ptr{O: ex.newObj(Slice{}, t)}
	})
	reg("(*github.com/pkg/errors.stack).StackTrace", func(ex *Exec, a []Value, _ *Frame) Value { return Slice{} })
	reg("strconv.Itoa", func(ex *Exec, a []Value, _ *Frame) Value { return ex.decString(a[0].(Int).T) })
	reg("strconv.FormatUint", func(ex *Exec, a []Value, _ *Frame) Value {
		if ex.mustInt(a[1], "base") != 10 {
			panic(engineErr("FormatUint base != 10"))
		}
		return ex.decString(a[0].(Int).T)
	})
	reg("strconv.FormatInt", intrinsics["strconv.FormatUint"])
	reg("strconv.Atoi", func(ex *Exec, a []Value, _ *Frame) Value { return ex.atoi(a[0].(Str), 64, true) })
	reg("strconv.ParseUint", func(ex *Exec, a []Value, _ *Frame) Value {
		if ex.mustInt(a[1], "base") != 10 {
			panic(engineErr("ParseUint base != 10"))
		}
		return ex.atoi(a[0].(Str), ex.mustInt(a[2], "bitSize"), false)
	})
	reg("strconv.ParseInt", func(ex *Exec, a []Value, _ *Frame) Value {
		if ex.mustInt(a[1], "base") != 10 {
			panic(engineErr("ParseInt base != 10"))
		}
		return ex.atoi(a[0].(Str), ex.mustInt(a[2], "bitSize"), true)
	})
	reg("strings.ToLower", func(ex *Exec, a []Value, _ *Frame) Value {
		f := ex.tf
		s := a[0].(Str)
		if s.Enc != nil && s.Enc.Kind != "hex" {
			return s // bech32 / decimal strings are already lower case
		}
		bs := ex.strBytes(s)
		out := make([]*Term, len(bs))
		for i, b := range bs {
			if b.IsConst() {
				c := b.C.Int64()
				if c >= 'A' && c <= 'Z' {
					c += 32
				}
				if c >= 128 {
					panic(engineErr("ToLower of non-ASCII"))
				}
				out[i] = f.I64(c)
				continue
			}
			if b.Hi == nil || b.Hi.Int64() >= 128 {
				if !ex.solverImplies(f.Lt(b, f.I64(128))) {
					panic(engineErr("ToLower of possibly non-ASCII symbolic byte"))
				}
			}
			out[i] = f.Ite(f.And(f.Le(f.I64('A'), b), f.Le(b, f.I64('Z'))), f.Add(b, f.I64(32)), b)
		}
		return Str{B: out}
	})
	reg("strings.EqualFold", func(ex *Exec, a []Value, fr *Frame) Value {
		l := intrinsics["strings.ToLower"]
		x := l(ex, []Value{a[0]}, fr).(Str)
		y := l(ex, []Value{a[1]}, fr).(Str)
		return BoolV{ex.strEq(x, y)}
	})
	reg("strings.TrimSpace", func(ex *Exec, a []Value, _ *Frame) Value {
		s := a[0].(Str)
		if cs, ok := concreteString(s); ok {
			return ex.strConst(strings.TrimSpace(cs))
		}
		ex.noteAssumption("strings.TrimSpace is the identity on non-literal strings (no surrounding white space)")
		return s
	})

	// ---------------- sync / atomic (single-threaded) ----------------
	nop := func(ex *Exec, a []Value, _ *Frame) Value { return nil }
	for _, n := range []string{"(*sync.Mutex).Lock", "(*sync.Mutex).Unlock", "(*sync.RWMutex).Lock", "(*sync.RWMutex).Unlock",
		"(*sync.RWMutex).RLock", "(*sync.RWMutex).RUnlock"} {
		reg(n, nop)
	}
	reg("(*sync.Once).Do", func(ex *Exec, a []Value, fr *Frame) Value {
		p := a[0].(Ptr)
		key := fmt.Sprintf("once!%d%v", p.O.ID, p.Path)
		if _, done := ex.env[key]; done {
			return nil
		}
		ex.env[key] = true
		ex.callValue(a[1], nil, nil, fr)
		return nil
	})
	// the wall clock: every read returns an arbitrary instant (whole seconds), independent of every other read, so that
	// two runs of the same operation on the same state see different clocks (C06 self-composition). time.Since and
	// time.Until execute their real bodies over this Now.
	reg("time.Now", func(ex *Exec, a []Value, fr *Frame) Value {
		n := len(ex.nondets)
		sec := ex.declNondet(fmt.Sprintf("wallclock.sec#%d", n), SInt, big1, new(big.Int).Lsh(big1, 40))
		ex.noteAssumption("wall clock: each time.Now() (also inside time.Since/Until) returns an arbitrary whole second in [1, 2^40], unrelated to other reads")
		pkg := ex.prog.ImportedPackage("time")
		if pkg == nil || pkg.Func("Unix") == nil {
			panic(engineErr("time.Now() reached and package time is not loaded"))
		}
		return ex.call(pkg.Func("Unix"), []Value{Int{sec}, Int{ex.tf.I64(0)}}, 2, nil, fr)
	})
}

func (ex *Exec) sliceBytesOrBlob(s Slice) []*Term {
	if s.Blob != nil {
		// a marshalled message hashes as an injective function of its content: one pseudo-byte per blob identity
		return []*Term{ex.blobDigest(s.Blob)}
	}
	return ex.sliceBytes(s)
}

func (ex *Exec) sliceEq(a, b Slice) *Term {
	if a.Blob != nil || b.Blob != nil {
		if a.Blob != nil && b.Blob != nil {
			return ex.blobEq(a.Blob, b.Blob)
		}
		bl, o := a.Blob, b
		if bl == nil {
			bl, o = b.Blob, a
		}
		if o.Len == 0 {
			return bl.Empty
		}
		panic(engineErr("comparison of a marshalled message with raw bytes"))
	}
	return ex.bytesEq(ex.sliceBytes(a), ex.sliceBytes(b))
}

func (ex *Exec) indexByte(bs []*Term, c *Term) Value {
	f := ex.tf
	res := f.I64(-1)
	for i := len(bs) - 1; i >= 0; i-- {
		res = f.Ite(f.Eq(bs[i], c), f.I64(int64(i)), res)
	}
	return Int{res}
}

// hashArray models a collision-free hash: equal outputs iff equal pre-images (per hash function).
// Concrete pre-images are hashed for real (sha256); symbolic ones get 32 fresh byte variables.
func (ex *Exec) hashArray(fn string, pre []*Term, n int) Value {
	f := ex.tf
	key := fn + "!" + termsKey(pre)
	var out []*Term
	for _, h := range ex.hashes {
		if h.key == key {
			out = h.outs
		}
	}
	if out == nil {
		allConst := true
		for _, p := range pre {
			if !p.IsConst() {
				allConst = false
			}
		}
		out = make([]*Term, n)
		if allConst && fn == "sha256" {
			raw := make([]byte, len(pre))
			for i, p := range pre {
				raw[i] = byte(p.C.Int64())
			}
			sum := sha256.Sum256(raw)
			for i := range out {
				out[i] = f.I64(int64(sum[i]))
			}
		} else {
			ex.hashCnt++
			for i := range out {
				out[i] = f.Var(fmt.Sprintf("hash!%s!%d!%d", fn, ex.hashCnt, i), SInt, big0, big.NewInt(255))
			}
		}
		// injectivity is instantiated lazily: when two digests are compared with each other (hashPairAt)
		ex.hashes = append(ex.hashes, &hashEntry{fn: fn, pre: pre, outs: out, key: key, id: len(ex.hashes), concrete: allConst && fn == "sha256"})
		ex.noteAssumption(fn + " is modelled as an injective uninterpreted function (no collisions); concrete sha256 inputs are hashed for real")
	}
	es := make([]Value, n)
	for i := range es {
		es[i] = Int{out[i]}
	}
	return Array{es}
}

// ---------- text helpers ----------

func (ex *Exec) decString(t *Term) Str {
	if t.IsConst() {
		return ex.strConst(t.C.String())
	}
	return Str{Enc: &Enc{Kind: "dec", Data: []*Term{t}}}
}

func (ex *Exec) textOf(v Value) (Str, bool) {
	switch x := v.(type) {
	case Iface:
		if x.T == nil {
			return ex.strConst("<nil>"), true
		}
		if b, ok := x.T.Underlying().(*types.Basic); ok {
			if b.Info()&types.IsString != 0 {
				return x.V.(Str), true
			}
			if b.Info()&types.IsInteger != 0 {
				return ex.decString(x.V.(Int).T), true
			}
		}
	}
	return Str{}, false
}

func (ex *Exec) sprintf(format Str, args Slice) Str {
	fs, ok := concreteString(format)
	var as []Value
	if args.Len > 0 {
		as = ex.sliceElems(args)
	}
	if ok {
		if !strings.Contains(fs, "%") {
			return ex.strConst(fs)
		}
		if len(as) == 1 && (fs == "%s" || fs == "%v" || fs == "%d") {
			if s, ok := ex.textOf(as[0]); ok {
				return s
			}
		}
		// all arguments have concrete text and only plain verbs occur: evaluate for real
		if plainVerbs(fs) {
			goArgs := make([]interface{}, len(as))
			allOK := true
			for i, a := range as {
				t, ok := ex.textOf(a)
				if !ok {
					allOK = false
					break
				}
				cs, ok := concreteString(t)
				if !ok {
					allOK = false
					break
				}
				goArgs[i] = cs
			}
			if allOK {
				return ex.strConst(fmt.Sprintf(strings.NewReplacer("%d", "%s", "%v", "%s").Replace(fs), goArgs...))
			}
		}
		if fs == "%T" && len(as) == 1 {
			if iv, ok := as[0].(Iface); ok && iv.T != nil {
				return ex.strConst(types.TypeString(iv.T, func(p *types.Package) string { return p.Name() }))
			}
		}
	}
	return Str{Opq: ex.newOpq("fmt:"+fs, as)}
}

func plainVerbs(f string) bool {
	for i := 0; i < len(f); i++ {
		if f[i] != '%' {
			continue
		}
		if i+1 >= len(f) {
			return false
		}
		switch f[i+1] {
		case 's', 'd', 'v':
			i++
		default:
			return false
		}
	}
	return true
}

func (ex *Exec) mkError(msg Str) Value {
	pkg := ex.prog.ImportedPackage("errors")
	if pkg == nil {
		panic(engineErr("package errors not loaded"))
	}
	t := pkg.Type("errorString").Type()
	o := ex.newObj(Struct{[]Value{msg}}, t)
	return Iface{T: types.NewPointer(t), V: Ptr{O: o}}
}

// parseDecimal: value of an optional-sign decimal numeral and a Bool term "is well formed".
func (ex *Exec) parseDecimal(bs []*Term, signed bool) (*Term, *Term) {
	f := ex.tf
	if len(bs) == 0 {
		return f.I64(0), f.False
	}
	digits := bs
	neg := f.False
	okT := f.True
	if signed {
		first := bs[0]
		isMinus := f.Eq(first, f.I64('-'))
		isPlus := f.Eq(first, f.I64('+'))
		if (isMinus.IsConst() && isMinus.B) || (isPlus.IsConst() && isPlus.B) {
			neg = isMinus
			digits = bs[1:]
			if len(digits) == 0 {
				return f.I64(0), f.False
			}
		} else if !(isMinus.IsConst() && isPlus.IsConst()) {
			// symbolic first char: sign or digit
			if len(bs) == 1 {
				// must be a digit
			} else {
				hasSign := f.Or(isMinus, isPlus)
				vs, oks := ex.parseDecimal(bs[1:], false)
				vu, oku := ex.parseDecimal(bs, false)
				val := f.Ite(hasSign, f.Ite(isMinus, f.Neg(vs), vs), vu)
				return val, f.Ite(hasSign, oks, oku)
			}
		}
	}
	val := f.I64(0)
	for _, d := range digits {
		okT = f.And(okT, f.Le(f.I64('0'), d), f.Le(d, f.I64('9')))
		val = f.Add(f.Mul(val, f.I64(10)), f.Sub(d, f.I64('0')))
	}
	return f.Ite(neg, f.Neg(val), val), okT
}

func (ex *Exec) atoi(s Str, bits int, signed bool) Value {
	f := ex.tf
	if bits == 0 {
		bits = 64
	}
	var lo, hi *big.Int
	if signed {
		lo, hi = new(big.Int).Neg(pow2(bits-1)), new(big.Int).Sub(pow2(bits-1), big1)
	} else {
		lo, hi = big0, new(big.Int).Sub(pow2(bits), big1)
	}
	errV := func() Value { return ex.mkError(Str{Opq: ex.newOpq("strconv: invalid syntax / out of range", nil)}) }
	if s.Enc != nil && s.Enc.Kind == "dec" {
		t := s.Enc.Data[0]
		inr := f.And(f.Le(f.Int(lo), t), f.Le(t, f.Int(hi)))
		if ex.branchNoSite(inr) {
			return Tuple{Int{t}, Iface{}}
		}
		return Tuple{Int{f.I64(0)}, errV()}
	}
	bs := ex.strBytes(s)
	val, okT := ex.parseDecimal(bs, signed)
	okT = f.And(okT, f.Le(f.Int(lo), val), f.Le(val, f.Int(hi)))
	if ex.branchNoSite(okT) {
		return Tuple{Int{val}, Iface{}}
	}
	return Tuple{Int{f.I64(0)}, errV()}
}

// parseBase0 models big.Int.SetString(s, 0) on a short symbolic string: every character is first classified by
// forking (sign, '0', octal digit, 8/9, hex letter, base letters b/o/x), then Go's prefix rules are applied to the
// now concrete shape; digit values stay symbolic. Underscore separators are not modelled (inconclusive).
func (ex *Exec) parseBase0(bs []*Term) (*Term, bool) {
	f := ex.tf
	if len(bs) > 6 {
		panic(engineErr("base-0 numeral longer than 6 characters"))
	}
	type cls struct {
		k string // M P Z O N B H X Q(o) other
		v *Term  // digit value (hex)
	}
	in := func(c *Term, lo, hi byte) *Term { return f.And(f.Le(f.I64(int64(lo)), c), f.Le(c, f.I64(int64(hi)))) }
	classify := func(c *Term) cls {
		eq := func(ch byte) *Term { return f.Eq(c, f.I64(int64(ch))) }
		switch {
		case ex.branchNoSite(eq('-')):
			return cls{k: "M"}
		case ex.branchNoSite(eq('+')):
			return cls{k: "P"}
		case ex.branchNoSite(eq('0')):
			return cls{k: "Z", v: f.I64(0)}
		case ex.branchNoSite(in(c, '1', '7')):
			return cls{k: "O", v: f.Sub(c, f.I64('0'))}
		case ex.branchNoSite(in(c, '8', '9')):
			return cls{k: "N", v: f.Sub(c, f.I64('0'))}
		case ex.branchNoSite(f.Or(eq('b'), eq('B'))):
			return cls{k: "B", v: f.I64(11)}
		case ex.branchNoSite(f.Or(eq('x'), eq('X'))):
			return cls{k: "X"}
		case ex.branchNoSite(f.Or(eq('o'), eq('O'))):
			return cls{k: "Q"}
		case ex.branchNoSite(in(c, 'a', 'f')):
			return cls{k: "H", v: f.Sub(c, f.I64('a'-10))}
		case ex.branchNoSite(in(c, 'A', 'F')):
			return cls{k: "H", v: f.Sub(c, f.I64('A'-10))}
		case ex.branchNoSite(eq('_')):
			panic(engineErr("underscore separator in a base-0 numeral is not modelled"))
		}
		return cls{k: "?"}
	}
	var cs []cls
	for _, b := range bs {
		c := classify(b)
		if c.k == "?" {
			return nil, false
		}
		cs = append(cs, c)
	}
	neg := false
	if len(cs) > 0 && (cs[0].k == "M" || cs[0].k == "P") {
		neg = cs[0].k == "M"
		cs = cs[1:]
	}
	if len(cs) == 0 {
		return nil, false
	}
	base := int64(10)
	digits := cs
	if cs[0].k == "Z" && len(cs) > 1 {
		switch cs[1].k {
		case "B":
			base, digits = 2, cs[2:]
		case "Q":
			base, digits = 8, cs[2:]
		case "X":
			base, digits = 16, cs[2:]
		default:
			base, digits = 8, cs[1:] // legacy octal: the leading 0 counts as a digit
			if len(digits) == 0 {
				return f.I64(0), true
			}
		}
		if len(digits) == 0 {
			return nil, false
		}
	}
	val := f.I64(0)
	for _, d := range digits {
		ok := false
		switch d.k {
		case "Z":
			ok = true
		case "O":
			ok = base >= 8
			if base == 2 {
				// only '1' is a binary digit
				one := f.Eq(d.v, f.I64(1))
				if !ex.branchNoSite(one) {
					return nil, false
				}
				ok = true
			}
		case "N":
			ok = base >= 10
		case "B", "H":
			ok = base == 16
		}
		if !ok {
			return nil, false
		}
		val = f.Add(f.Mul(val, f.I64(base)), d.v)
	}
	if neg {
		val = f.Neg(val)
	}
	return val, true
}
