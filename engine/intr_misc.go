package main

import "math/big"

func init() {
	reg := func(name string, f intrinsic) { intrinsics[name] = f }
	reg("internal/bytealg.MakeNoZero", func(ex *Exec, a []Value, _ *Frame) Value {
		n := ex.mustInt(a[0], "MakeNoZero len")
		bs := make([]*Term, n)
		for i := range bs {
			bs[i] = ex.tf.I64(0)
		}
		return ex.bytesSlice(bs)
	})
}

func newRat0() *big.Rat { return new(big.Rat) }

func init() {
	reg := func(name string, f intrinsic) { intrinsics[name] = f }
	// sort.Slice: insertion sort driven by the real less closure (forks on symbolic comparisons)
	sortSlice := func(stable bool) intrinsic {
		return func(ex *Exec, a []Value, fr *Frame) Value {
			iv := a[0].(Iface)
			s, ok := iv.V.(Slice)
			if !ok {
				panic(engineErr("sort.Slice of a non-slice"))
			}
			less := a[1]
			n := s.Len
			if n > 8 {
				panic(engineErr("sort.Slice of more than 8 elements"))
			}
			lessAt := func(i, j int) bool {
				r := ex.callValue(less, []Value{Int{ex.tf.I64(int64(i))}, Int{ex.tf.I64(int64(j))}}, nil, fr)
				return ex.branchNoSite(ex.asBool(r))
			}
			for i := 1; i < n; i++ {
				for j := i; j > 0 && lessAt(j, j-1); j-- {
					pa, pb := ex.sliceElemPtr(s, j), ex.sliceElemPtr(s, j-1)
					va, vb := ex.load(pa), ex.load(pb)
					ex.store(pa, vb)
					ex.store(pb, va)
				}
			}
			ex.noteAssumption("sort.Slice/sort.Strings are modelled as an insertion sort calling the real less function (result order is what matters; n <= 8)")
			return nil
		}
	}
	reg("sort.Slice", sortSlice(false))
	reg("sort.SliceStable", sortSlice(true))
	reg("sort.Strings", func(ex *Exec, a []Value, fr *Frame) Value {
		s := a[0].(Slice)
		n := s.Len
		if n > 8 {
			panic(engineErr("sort.Strings of more than 8 elements"))
		}
		for i := 1; i < n; i++ {
			for j := i; j > 0; j-- {
				pa, pb := ex.sliceElemPtr(s, j), ex.sliceElemPtr(s, j-1)
				va, vb := ex.load(pa).(Str), ex.load(pb).(Str)
				if !ex.branchNoSite(ex.strLess(va, vb, false)) {
					break
				}
				ex.store(pa, vb)
				ex.store(pb, va)
			}
		}
		return nil
	})
	reg("math.Abs", func(ex *Exec, a []Value, _ *Frame) Value {
		f := ex.tf
		x := a[0].(Float).T
		z := f.Real(newRat0())
		if x.IsConst() {
			return Float{f.Real(new(big.Rat).Abs(x.R))}
		}
		t := f.mk(&Term{Op: "ite", Sort: SReal, Args: []*Term{f.Lt(x, z), f.Sub(z, x), x}})
		return Float{t}
	})
}

func init() {
	// encoding/json.Marshal: an injective opaque encoding of the value (only ever hashed or compared)
	intrinsics["encoding/json.Marshal"] = func(ex *Exec, a []Value, _ *Frame) Value {
		iv, ok := a[0].(Iface)
		if !ok || iv.T == nil {
			return Tuple{ex.bytesSlice([]*Term{ex.tf.I64('n'), ex.tf.I64('u'), ex.tf.I64('l'), ex.tf.I64('l')}), Iface{}}
		}
		ex.blobCnt++
		ex.noteAssumption("encoding/json.Marshal is modelled as an injective opaque encoding of its argument")
		return Tuple{Slice{Blob: &Blob{V: ex.freeze(iv.V, iv.T, 0), Typ: iv.T, Empty: ex.tf.False, ID: ex.blobCnt}}, Iface{}}
	}
}
