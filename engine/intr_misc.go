package main

import (
	"encoding/json"
	"go/types"
	"math/big"
)

func init() {
	reg := func(name string, f intrinsic) { intrinsics[name] = f }
	reg("internal/bytealg.MakeNoZero", func(ex *Exec, a []Value, _ *Frame) Value {
		n := ex.mustInt(a[0], "MakeNoZero len")
		bs := make([]*Term, n)
		for i := range bs {
			bs[i] = ex.tf.I64(0)
		}
		return ex.bytesSlice(bs)
	})
}

func newRat0() *big.Rat { return new(big.Rat) }

func init() {
	reg := func(name string, f intrinsic) { intrinsics[name] = f }
	// sort.Slice: insertion sort driven by the real less closure (forks on symbolic comparisons)
	sortSlice := func(stable bool) intrinsic {
		return func(ex *Exec, a []Value, fr *Frame) Value {
			iv := a[0].(Iface)
			s, ok := iv.V.(Slice)
			if !ok {
				panic(engineErr("sort.Slice of a non-slice"))
			}
			less := a[1]
			n := s.Len
			if n > 8 {
				panic(engineErr("sort.Slice of more than 8 elements"))
			}
			lessAt := func(i, j int) bool {
				r := ex.callValue(less, []Value{Int{ex.tf.I64(int64(i))}, Int{ex.tf.I64(int64(j))}}, nil, fr)
				return ex.branchNoSite(ex.asBool(r))
			}
			for i := 1; i < n; i++ {
				for j := i; j > 0 && lessAt(j, j-1); j-- {
					pa, pb := ex.sliceElemPtr(s, j), ex.sliceElemPtr(s, j-1)
					va, vb := ex.load(pa), ex.load(pb)
					ex.store(pa, vb)
					ex.store(pb, va)
				}
			}
			ex.noteAssumption("sort.Slice/sort.Strings are modelled as an insertion sort calling the real less function (result order is what matters; n <= 8)")
			return nil
		}
	}
	reg("sort.Slice", sortSlice(false))
	reg("sort.SliceStable", sortSlice(true))
	reg("sort.Strings", func(ex *Exec, a []Value, fr *Frame) Value {
		s := a[0].(Slice)
		n := s.Len
		if n > 8 {
			panic(engineErr("sort.Strings of more than 8 elements"))
		}
		for i := 1; i < n; i++ {
			for j := i; j > 0; j-- {
				pa, pb := ex.sliceElemPtr(s, j), ex.sliceElemPtr(s, j-1)
				va, vb := ex.load(pa).(Str), ex.load(pb).(Str)
				if !ex.branchNoSite(ex.strLess(va, vb, false)) {
					break
				}
				ex.store(pa, vb)
				ex.store(pb, va)
			}
		}
		return nil
	})
	reg("math.Abs", func(ex *Exec, a []Value, _ *Frame) Value {
		f := ex.tf
		x := a[0].(Float).T
		z := f.Real(newRat0())
		if x.IsConst() {
			return Float{f.Real(new(big.Rat).Abs(x.R))}
		}
		t := f.mk(&Term{Op: "ite", Sort: SReal, Args: []*Term{f.Lt(x, z), f.Sub(z, x), x}})
		return Float{t}
	})
}

func init() {
	// encoding/json.Marshal: an injective opaque encoding of the value (only ever hashed or compared)
	intrinsics["encoding/json.Marshal"] = func(ex *Exec, a []Value, _ *Frame) Value {
		iv, ok := a[0].(Iface)
		if !ok || iv.T == nil {
			return Tuple{ex.bytesSlice([]*Term{ex.tf.I64('n'), ex.tf.I64('u'), ex.tf.I64('l'), ex.tf.I64('l')}), Iface{}}
		}
		ex.blobCnt++
		ex.noteAssumption("encoding/json.Marshal is modelled as an injective opaque encoding of its argument")
		return Tuple{Slice{Blob: &Blob{V: ex.freeze(iv.V, iv.T, 0), Typ: iv.T, Empty: ex.tf.False, ID: ex.blobCnt}}, Iface{}}
	}
}


func init() {
	// encoding/json.Unmarshal: the inverse of the injective Marshal model for blobs; concrete bytes that are not
	// valid JSON give an error (decided with the real json.Valid); other concrete JSON texts are not modelled.
	intrinsics["encoding/json.Unmarshal"] = func(ex *Exec, a []Value, fr *Frame) Value {
		data := a[0].(Slice)
		tv, ok := a[1].(Iface)
		if !ok || tv.T == nil {
			return ex.mkError(ex.strConst("json: Unmarshal(nil)"))
		}
		if data.Blob == nil || data.Blob.V == nil {
			conc := true
			var raw []byte
			for _, b := range ex.sliceBytes(data) {
				if !b.IsConst() {
					conc = false
					break
				}
				raw = append(raw, byte(b.C.Int64()))
			}
			if !conc {
				panic(engineErr("json.Unmarshal of symbolic raw bytes"))
			}
			if !json.Valid(raw) {
				return ex.mkError(ex.strConst("invalid character in JSON input"))
			}
			panic(engineErr("json.Unmarshal of a concrete JSON text (only Marshal blobs and invalid texts are modelled)"))
		}
		// source: strip pointers
		sv, st := data.Blob.V, data.Blob.Typ
		for {
			pt, isPtr := st.Underlying().(*types.Pointer)
			if !isPtr {
				break
			}
			p := sv.(Ptr)
			if p.O == nil {
				return Iface{} // null: no effect
			}
			sv, st = ex.load(p), pt.Elem()
		}
		// target: follow (and allocate) pointers down to the value
		tp, ok := tv.V.(Ptr)
		if !ok || tp.O == nil {
			return ex.mkError(ex.strConst("json: Unmarshal(non-pointer)"))
		}
		tt := tv.T.Underlying().(*types.Pointer).Elem()
		for {
			pt, isPtr := tt.Underlying().(*types.Pointer)
			if !isPtr {
				break
			}
			inner := ex.load(tp).(Ptr)
			if inner.O == nil {
				inner = Ptr{O: ex.newObj(ex.zero(pt.Elem()), pt.Elem())}
				ex.store(tp, inner)
			}
			tp, tt = inner, pt.Elem()
		}
		if !types.Identical(st, tt) {
			panic(engineErr("json.Unmarshal of a " + st.String() + " blob into " + tt.String()))
		}
		ex.store(tp, ex.freeze(sv, st, 0))
		ex.noteAssumption("encoding/json.Unmarshal of a json.Marshal result restores the marshalled value (lossless for the exported, tagged integer/string fields used here)")
		return Iface{}
	}
	// tendermint's amino-style JSON decodes plain structs like encoding/json
	intrinsics["github.com/tendermint/tendermint/libs/json.Unmarshal"] = intrinsics["encoding/json.Unmarshal"]
	intrinsics["math.Ceil"] = func(ex *Exec, a []Value, _ *Frame) Value {
		x := a[0].(Float).T
		if !x.IsConst() {
			panic(engineErr("math.Ceil of a symbolic value"))
		}
		q := new(big.Int).Quo(x.R.Num(), x.R.Denom()) // truncation toward zero
		if x.R.Sign() > 0 && new(big.Rat).SetInt(q).Cmp(x.R) != 0 {
			q.Add(q, big.NewInt(1))
		}
		ex.noteAssumption("float64 arithmetic is exact rational arithmetic (operands below 2^53; math.Ceil of n/100 agrees with IEEE rounding there)")
		return Float{ex.tf.Real(new(big.Rat).SetInt(q))}
	}
}
