package main

func init() {
	reg := func(name string, f intrinsic) { intrinsics[name] = f }
	reg("internal/bytealg.MakeNoZero", func(ex *Exec, a []Value, _ *Frame) Value {
		n := ex.mustInt(a[0], "MakeNoZero len")
		bs := make([]*Term, n)
		for i := range bs {
			bs[i] = ex.tf.I64(0)
		}
		return ex.bytesSlice(bs)
	})
}
