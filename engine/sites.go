package main

import (
	"fmt"
	"go/types"
	"sort"
	"strings"

	"golang.org/x/tools/go/ssa"
	"golang.org/x/tools/go/ssa/ssautil"
)

// nondetSites lists, from the SSA of the module's consensus packages, every construct whose behaviour may differ
// between runs: range over a map, go statements, select, reads of the wall clock (time.Now/Since/Until, timers), of
// randomness (math/rand, crypto/rand) and of the process environment.
func nondetSites(l *Loaded) []string {
	var out []string
	for _, p := range l.prog.AllPackages() {
		if strings.HasPrefix(p.Pkg.Path(), "github.com/MinterTeam/mhub2/module/x/") {
			p.Build()
		}
	}
	fns := ssautil.AllFunctions(l.prog)
	for fn := range fns {
		if fn.Pkg == nil || fn.Blocks == nil {
			continue
		}
		pp := fn.Pkg.Pkg.Path()
		if !strings.HasPrefix(pp, "github.com/MinterTeam/mhub2/module/x/") || strings.Contains(pp, "/client") || strings.Contains(pp, "zzverif") {
			continue
		}
		pos := l.prog.Fset.Position(fn.Pos())
		file := pos.Filename
		if strings.HasSuffix(file, ".pb.go") || strings.HasSuffix(file, ".pb.gw.go") || strings.HasSuffix(file, "_test.go") || strings.Contains(file, "/zz_") ||
			strings.HasSuffix(file, "test_common.go") || strings.Contains(fn.Name(), "ZZ") || strings.HasPrefix(fn.Name(), "zz") {
			continue
		}
		name := fn.String()
		for _, b := range fn.Blocks {
			for _, ins := range b.Instrs {
				switch i := ins.(type) {
				case *ssa.Range:
					if _, ok := i.X.Type().Underlying().(*types.Map); ok {
						out = append(out, "map-range in "+name)
					}
				case *ssa.Go:
					out = append(out, "go statement in "+name)
				case *ssa.Select:
					out = append(out, "select in "+name)
				case *ssa.Call:
					if c := i.Common().StaticCallee(); c != nil {
						cn := c.String()
						if strings.HasSuffix(cn, ".init") {
							continue
						}
						if cn == "time.Now" || cn == "time.Since" || cn == "time.Until" || cn == "time.After" || cn == "time.Tick" || cn == "time.NewTimer" || cn == "time.NewTicker" ||
							strings.HasPrefix(cn, "math/rand.") || strings.HasPrefix(cn, "(*math/rand.Rand)") || strings.HasPrefix(cn, "crypto/rand.") ||
							cn == "os.Getenv" || cn == "os.Hostname" || cn == "os.Getpid" {
							out = append(out, "call to "+cn+" in "+name)
						}
					}
				}
			}
		}
	}
	sort.Strings(out)
	// dedupe with counts
	var res []string
	for i := 0; i < len(out); {
		j := i
		for j < len(out) && out[j] == out[i] {
			j++
		}
		if j-i > 1 {
			res = append(res, fmt.Sprintf("%s (x%d)", out[i], j-i))
		} else {
			res = append(res, out[i])
		}
		i = j
	}
	return res
}
