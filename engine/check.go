package main

import (
	"encoding/json"
	"flag"
	"fmt"
	"os"
	"os/exec"
	"path/filepath"
	"sort"
	"strconv"
	"strings"
	"time"

	"golang.org/x/tools/go/ssa"
)

type EntryCfg struct {
	Fn       string `json:"fn"`
	Unwind   int    `json:"unwind,omitempty"`
	MaxPaths int    `json:"max_paths,omitempty"`
	Thorough bool   `json:"thorough_only,omitempty"`
	Timeout  int    `json:"solver_timeout_ms,omitempty"`
	NoReplay bool   `json:"no_native_replay,omitempty"` // e.g. outcome depends on Go's map order, which cannot be forced natively
}

type CheckCfg struct {
	Dir        string            `json:"dir"`
	Pkgs       []string          `json:"pkgs"`
	Entries    []EntryCfg        `json:"entries"`
	MustCheck  []string          `json:"must_check"` // obligations that must be exercised (vacuity guard)
	Bounds     map[string]string `json:"bounds"`
	Outside    []string          `json:"outside_claim"`
	ReplayPkg  map[string]string `json:"replay_pkg,omitempty"`
	Prefix     []string          `json:"obligation_prefixes,omitempty"`
	Stubs      map[string]string `json:"stubs,omitempty"` // environment stubs: real function -> harness function (listed in the evidence)
	Sites      []string          `json:"nondeterminism_sites,omitempty"` // C06: the reviewed list of map-range/go/select/clock sites // only these obligations belong to the property (shared harnesses)
}

type Finding struct {
	Property   string `json:"property"`
	Obligation string `json:"obligation"`
	What       string `json:"what"`
}

type KnownFindings struct {
	Open  []Finding `json:"open"`
	Fixed []string  `json:"fixed"`
}

type replayItem struct {
	Entry      string         `json:"entry"`
	File       string         `json:"file"`
	Expect     []string       `json:"expect_failed"`
	ExpectPan  bool           `json:"expect_panic"`
	Kind       string         `json:"kind"` // witness | violation
	Obligation string         `json:"obligation"`
	Values     map[string]string `json:"values"`
	Choices    map[string]int `json:"choices"`
	Tier       string         `json:"tier"`
}

var curTier = "quick"

func cmdCheck(args []string) int {
	fs := flag.NewFlagSet("check", flag.ExitOnError)
	tier := fs.String("tier", os.Getenv("VERIF_TIER"), "quick|thorough")
	workers := fs.Int("workers", 0, "workers")
	replay := fs.String("replay", "", "replay a counterexample file")
	verbose := fs.Bool("v", false, "verbose")
	only := fs.String("entry", "", "only this entry")
	noNative := fs.Bool("no-native", false, "skip native replays (debug)")
	fs.Parse(reorder(args))
	if fs.NArg() < 1 {
		fmt.Println("usage: gosym check <property> [--tier quick|thorough]")
		return 2
	}
	pid := fs.Arg(0)
	if *tier == "" {
		*tier = "quick"
	}
	curTier = *tier
	seed, _ := strconv.Atoi(os.Getenv("VERIF_SEED"))
	t0 := time.Now()

	var all map[string]*CheckCfg
	data, err := os.ReadFile(filepath.Join(verifRoot, "checks.json"))
	if err != nil {
		fmt.Println("ERROR", err)
		return 2
	}
	if err := json.Unmarshal(data, &all); err != nil {
		fmt.Println("ERROR checks.json:", err)
		return 2
	}
	cfg := all[pid]
	if cfg == nil {
		fmt.Println("ERROR no check configured for", pid)
		return 2
	}
	var known KnownFindings
	if d, err := os.ReadFile(filepath.Join(verifRoot, "known_findings.json")); err == nil {
		json.Unmarshal(d, &known)
	}
	if *replay != "" {
		return replayOne(pid, cfg, *replay)
	}
	if *workers == 0 {
		*workers = 8
		if *tier == "thorough" {
			*workers = 16
		}
	}

	l, err := loadProgram(cfg.Dir, cfg.Pkgs)
	if err != nil {
		fmt.Println("ERROR", err)
		return 2
	}
	loadS := time.Since(t0).Seconds()
	var sitesNow, freshSites []string
	if cfg.Sites != nil {
		sitesNow = nondetSites(l)
		known := map[string]bool{}
		for _, x := range cfg.Sites {
			known[x] = true
		}
		var fresh []string
		for _, x := range sitesNow {
			if !known[x] {
				fresh = append(fresh, x)
			}
		}
		freshSites = fresh // reported at the end, unless a harness already shows a violation
	}

	type agg struct {
		oblStat
		entries map[string]bool
	}
	obl := map[string]*agg{}
	funcs, intr, assump := map[string]bool{}, map[string]bool{}, map[string]bool{}
	var paths, transitions, queries, unknowns int
	var solverT time.Duration
	status := map[string]int{}
	var errorsSeen []string
	var samples []interface{}
	var replays []replayItem
	violationsByObl := map[string]*replayItem{}
	reached := map[string]int{}
	os.MkdirAll(filepath.Join(verifRoot, "replays", pid), 0o755)

	for _, e := range cfg.Entries {
		if e.Thorough && *tier != "thorough" {
			continue
		}
		if *only != "" && e.Fn != *only {
			continue
		}
		fn := l.findEntry(e.Fn)
		if fn == nil {
			fmt.Printf("ERROR harness entry %s not found\n", e.Fn)
			return 2
		}
		r := NewRun(l.prog, fn)
		r.verbose = *verbose
		r.seed = seed
		for real, hf := range cfg.Stubs {
			sf := l.findEntry(hf)
			if sf == nil {
				fmt.Printf("ERROR stub function %s not found\n", hf)
				return 2
			}
			if r.stubs == nil {
				r.stubs = map[string]*ssa.Function{}
			}
			r.stubs[real] = sf
		}
		if e.Unwind > 0 {
			r.unwind = e.Unwind
		}
		if e.MaxPaths > 0 {
			r.maxPaths = e.MaxPaths
		}
		if e.Timeout > 0 {
			r.timeoutMs = e.Timeout
		}
		te := time.Now()
		r.Explore(*workers)
		st, ob, rc := r.Summary()
		fmt.Printf("[%s] %s: paths=%d %v queries=%d solver=%.1fs wall=%.1fs\n", pid, e.Fn, len(r.Paths), st, r.Queries, r.SolverT.Seconds(), time.Since(te).Seconds())
		paths += len(r.Paths)
		queries += r.Queries
		unknowns += r.Unknowns
		solverT += r.SolverT
		for k, v := range st {
			status[k] += v
		}
		for k, v := range rc {
			reached[k] += v
		}
		for k := range r.funcs {
			funcs[k] = true
		}
		for k := range r.intr {
			intr[k] = true
		}
		for k := range r.assump {
			assump[k] = true
		}
		for id, o := range ob {
			a := obl[id]
			if a == nil {
				a = &agg{entries: map[string]bool{}}
				obl[id] = a
			}
			a.Checked += o.Checked
			a.Discharged += o.Discharged
			a.Trivial += o.Trivial
			a.Violated += o.Violated
			a.Unknown += o.Unknown
			if o.UnknownWhy != "" {
				a.UnknownWhy = o.UnknownWhy
			}
			a.entries[e.Fn] = true
		}
		if st["ok"] > 0 {
			id := e.Fn + ".returns-without-panic[all paths outside the listed panic sites]"
			obl[id] = &agg{oblStat: oblStat{Checked: st["ok"], Discharged: st["ok"]}, entries: map[string]bool{e.Fn: true}}
		}
		nW := 0
		for pi, p := range r.Paths {
			transitions += p.Branches
			if p.Status == "error" {
				errorsSeen = append(errorsSeen, e.Fn+": "+p.Detail)
			}
			if p.Status == "panic" {
				// a panic that escapes the harness entry is an outcome of its own
				id := e.Fn + ".panicfree[" + p.PanicClass + "]"
				a := obl[id]
				if a == nil {
					a = &agg{entries: map[string]bool{}}
					obl[id] = a
				}
				a.Checked++
				a.Violated++
				if _, ok := violationsByObl[id]; !ok && p.Sample != nil {
					f := filepath.Join(verifRoot, "replays", pid, sanitize(id)+".json")
					it := &replayItem{Entry: e.Fn, File: f, ExpectPan: true, Kind: "violation", Obligation: id, Values: p.Sample, Choices: p.Choices, Tier: *tier}
					violationsByObl[id] = it
					fmt.Printf("  escaped panic in %s: %s\n", e.Fn, p.Detail)
				}
			}
			for _, v := range p.Violations {
				if _, ok := violationsByObl[v.Obligation]; !ok {
					f := filepath.Join(verifRoot, "replays", pid, sanitize(v.Obligation)+".json")
					it := &replayItem{Entry: e.Fn, File: f, Expect: []string{v.Obligation}, Kind: "violation", Obligation: v.Obligation, Values: v.Model, Choices: v.Choices, Tier: *tier}
					if e.NoReplay {
						it.Kind = "violation-noreplay"
					}
					violationsByObl[v.Obligation] = it
				}
			}
			// witnesses: first few completed paths that reached something
			if p.Status == "ok" && len(p.Reached) > 0 && p.Sample != nil && nW < 2 && !e.NoReplay {
				nW++
				f := filepath.Join(verifRoot, "replays", pid, fmt.Sprintf("witness-%s-%d.json", e.Fn, pi))
				var mayFail []string
				for _, v := range p.Violations {
					mayFail = append(mayFail, v.Obligation)
				}
				replays = append(replays, replayItem{Entry: e.Fn, File: f, Kind: "witness", Values: p.Sample, Choices: p.Choices, Tier: *tier, Expect: mayFail})
				if len(samples) < 6 {
					samples = append(samples, map[string]interface{}{"entry": e.Fn, "kind": "witness path", "inputs": p.Sample, "choices": p.Choices, "reached": p.Reached})
				}
			}
		}
	}

	// ---- classify ----
	isKnown := func(id string) *Finding {
		for i := range known.Open {
			if known.Open[i].Property == pid && known.Open[i].Obligation == id {
				return &known.Open[i]
			}
		}
		return nil
	}
	var oblIDs []string
	for id := range obl {
		oblIDs = append(oblIDs, id)
	}
	sort.Strings(oblIDs)
	nObl, nDis, nInc := 0, 0, 0
	var inconclusive []string
	var newViol []string
	var knownHit []string
	oblReport := map[string]interface{}{}
	mine := func(id string) bool {
		if len(cfg.Prefix) == 0 {
			return true
		}
		for _, p := range cfg.Prefix {
			if strings.HasPrefix(id, p) {
				return true
			}
		}
		return false
	}
	for _, id := range oblIDs {
		if !mine(id) {
			continue
		}
		a := obl[id]
		nObl++
		st := "discharged"
		switch {
		case a.Violated > 0:
			if isKnown(id) != nil {
				st = "known-finding"
				knownHit = append(knownHit, id)
			} else {
				st = "violated"
				newViol = append(newViol, id)
			}
		case a.Unknown > 0:
			st = "inconclusive"
			nInc++
			inconclusive = append(inconclusive, id+": "+a.UnknownWhy)
		default:
			nDis++
		}
		oblReport[id] = map[string]interface{}{"status": st, "path_instances": a.Checked, "discharged": a.Discharged, "violated": a.Violated, "unknown": a.Unknown}
	}
	// native replays: witnesses + every violation (known or new)
	for _, id := range append(append([]string{}, knownHit...), newViol...) {
		it := violationsByObl[id]
		if it != nil && it.Kind == "violation" {
			replays = append(replays, *it)
		}
		if it != nil && len(samples) < 12 {
			samples = append(samples, map[string]interface{}{"entry": it.Entry, "kind": "counterexample", "obligation": id, "inputs": it.Values, "choices": it.Choices})
		}
	}
	validated := 0
	mismatch := []string{}
	confirmed := map[string]bool{}
	if !*noNative && len(replays) > 0 {
		res, err := runNativeReplays(cfg, replays)
		if err != nil {
			fmt.Println("ERROR native replay failed to run:", err)
			return 2
		}
		for i, it := range replays {
			rr := res[i]
			switch it.Kind {
			case "witness":
				if rr.OK {
					validated++
				} else {
					mismatch = append(mismatch, fmt.Sprintf("witness %s of %s does not replay natively: %s", filepath.Base(it.File), it.Entry, rr.Detail))
				}
			case "violation":
				if rr.OK {
					validated++
					confirmed[it.Obligation] = true
				} else {
					mismatch = append(mismatch, fmt.Sprintf("counterexample for %s does not reproduce natively: %s", it.Obligation, rr.Detail))
				}
			}
		}
	} else if *noNative {
		for _, id := range newViol {
			confirmed[id] = true
		}
		for _, id := range knownHit {
			confirmed[id] = true
		}
	}
	for id, it := range violationsByObl {
		if it.Kind == "violation-noreplay" {
			confirmed[id] = true
		}
	}

	// vacuity
	var vacuous []string
	for _, id := range cfg.MustCheck {
		if *only != "" {
			break
		}
		if strings.HasPrefix(id, "reach:") {
			if reached[strings.TrimPrefix(id, "reach:")] == 0 {
				vacuous = append(vacuous, id)
			}
			continue
		}
		if strings.HasPrefix(id, "T:") { // thorough-only obligation
			if *tier != "thorough" {
				continue
			}
			id = strings.TrimPrefix(id, "T:")
		}
		if a := obl[id]; a == nil || a.Checked == 0 {
			vacuous = append(vacuous, id)
		}
	}

	// ---- evidence ----
	wall := time.Since(t0).Seconds()
	var assumptions []string
	for _, s := range sortedKeys(assump) {
		assumptions = append(assumptions, s)
	}
	for _, s := range cfg.Outside {
		assumptions = append(assumptions, "outside the claim: "+s)
	}
	if len(samples) == 0 {
		samples = append(samples, map[string]interface{}{"note": "no completed path produced a sample"})
	}
	ev := map[string]interface{}{
		"property_id": pid,
		"tier":        *tier,
		"seed":        seed,
		"level":       "model_checking",
		"wall_s":      wall,
		"violations":  len(newViol),
		"assumptions": assumptions,
		"coverage": map[string]interface{}{
			"states":                        paths,
			"transitions":                   transitions + paths,
			"traces_validated_against_impl": validated,
			"samples":                       samples,
			"obligations":                   nObl,
			"discharged":                    nDis,
			"inconclusive":                  nInc,
			"known_findings_hit":            knownHit,
			"obligation_detail":             oblReport,
			"path_status":                   status,
			"engine_errors":                 uniq(errorsSeen, 10),
			"functions_encoded":             sortedKeys(funcs),
			"functions_encoded_count":       len(funcs),
			"intrinsics_used":               sortedKeys(intr),
			"bounds":                        cfg.Bounds,
			"nondeterminism_sites_in_ssa":   sitesNow,
			"solver":                        "z3 4.8.12 (persistent z3 -in, push/pop, timeout per query)",
			"solver_queries":                queries,
			"solver_unknown":                unknowns,
			"solver_time_s":                 solverT.Seconds(),
			"load_s":                        loadS,
			"exhaustive":                    false,
			"explanation":                   "bounded symbolic execution of the Go SSA of the real code from /repo; states = explored symbolic paths, transitions = branch/choice decisions taken; every obligation is decided by the SMT solver for all inputs on each path",
		},
	}
	os.MkdirAll(filepath.Join(verifRoot, "evidence"), 0o755)
	evb, _ := json.MarshalIndent(ev, "", " ")
	os.WriteFile(filepath.Join(verifRoot, "evidence", pid+".json"), evb, 0o644)

	// ---- verdict ----
	fmt.Printf("[%s] tier=%s obligations=%d discharged=%d inconclusive=%d known=%d new-violations=%d paths=%d queries=%d wall=%.1fs\n",
		pid, *tier, nObl, nDis, nInc, len(knownHit), len(newViol), paths, queries, wall)
	for _, e := range uniq(errorsSeen, 6) {
		fmt.Println("  inconclusive path:", e)
	}
	for _, id := range knownHit {
		if confirmed[id] || violationsByObl[id] == nil {
			fmt.Printf("KNOWN-FINDING: property=%s %s — %s\n", pid, id, isKnown(id).What)
		}
	}
	rc := 0
	for _, id := range newViol {
		if confirmed[id] {
			it := violationsByObl[id]
			path := ""
			if it != nil {
				path = it.File
				writeReplayFile(*it)
			}
			fmt.Printf("VIOLATION property=%s replay=%s\n", pid, path)
			fmt.Printf("  obligation %s violated\n", id)
			rc = 1
		}
	}
	if rc == 1 {
		return 1
	}
	if len(freshSites) > 0 {
		// a map range, goroutine, select or clock read that is not in the reviewed list and that no harness showed to
		// matter: the check cannot vouch for it (extend a harness over it, then add it to the list)
		for _, x := range freshSites {
			fmt.Println("ERROR new source of nondeterminism not covered by a harness:", x)
		}
		return 2
	}
	if len(mismatch) > 0 {
		for _, m := range mismatch {
			fmt.Println("ERROR encoding/replay mismatch:", m)
		}
		return 2
	}
	if len(errorsSeen) > 0 {
		for _, e := range uniq(errorsSeen, 10) {
			fmt.Println("ERROR inconclusive path:", e)
		}
		return 2
	}
	if nInc > 0 {
		for _, s := range inconclusive {
			fmt.Println("ERROR inconclusive obligation:", s)
		}
		return 2
	}
	if len(vacuous) > 0 {
		fmt.Println("ERROR vacuous: obligations never exercised:", strings.Join(vacuous, ", "))
		return 2
	}
	return 0
}

func uniq(xs []string, max int) []string {
	seen := map[string]int{}
	var out []string
	for _, x := range xs {
		if seen[x] == 0 {
			out = append(out, x)
		}
		seen[x]++
	}
	sort.Strings(out)
	if len(out) > max {
		out = out[:max]
	}
	for i, x := range out {
		out[i] = fmt.Sprintf("%dx %s", seen[x], x)
	}
	return out
}

func reorder(args []string) []string {
	// allow flags after the positional property id
	var flags, pos []string
	for i := 0; i < len(args); i++ {
		a := args[i]
		if strings.HasPrefix(a, "-") {
			flags = append(flags, a)
			if !strings.Contains(a, "=") && i+1 < len(args) && !strings.HasPrefix(args[i+1], "-") && a != "-v" && a != "--v" && a != "-no-native" && a != "--no-native" {
				flags = append(flags, args[i+1])
				i++
			}
		} else {
			pos = append(pos, a)
		}
	}
	return append(flags, pos...)
}

func sanitize(s string) string {
	r := strings.NewReplacer("/", "_", " ", "_", "[", "_", "]", "_", ":", "_", "<", "lt", ">", "gt", "=", "eq", "&", "and", "|", "or")
	return r.Replace(s)
}

func writeReplayFile(it replayItem) {
	b, _ := json.MarshalIndent(map[string]interface{}{"entry": it.Entry, "obligation": it.Obligation, "expect_failed": it.Expect, "expect_panic": it.ExpectPan,
		"values": it.Values, "choices": it.Choices, "tier": it.Tier, "kind": it.Kind}, "", " ")
	os.WriteFile(it.File, b, 0o644)
}

type replayResult struct {
	OK     bool   `json:"ok"`
	Detail string `json:"detail"`
}

// entryPackage: which overlay dir (and package path) hosts an entry
func entryDirs() map[string]string {
	out := map[string]string{}
	for sub := range overlayDirs {
		files, _ := filepath.Glob(filepath.Join(verifRoot, "harness", sub, "*.go"))
		for _, f := range files {
			data, _ := os.ReadFile(f)
			for _, line := range strings.Split(string(data), "\n") {
				if strings.HasPrefix(line, "func ZZ_") {
					name := strings.TrimPrefix(line, "func ")
					if i := strings.Index(name, "("); i > 0 {
						out[name[:i]] = sub
					}
				}
			}
		}
	}
	return out
}

func pkgNameOf(sub string) string {
	files, _ := filepath.Glob(filepath.Join(verifRoot, "harness", sub, "*.go"))
	for _, f := range files {
		data, _ := os.ReadFile(f)
		for _, line := range strings.Split(string(data), "\n") {
			if strings.HasPrefix(line, "package ") {
				return strings.TrimSpace(strings.TrimPrefix(line, "package "))
			}
		}
	}
	return sub
}

// runNativeReplays compiles the same harness natively (go test -overlay) and runs every item against the real code.
func runNativeReplays(cfg *CheckCfg, items []replayItem) ([]replayResult, error) {
	dirs := entryDirs()
	bySub := map[string][]int{}
	for i, it := range items {
		writeReplayFile(it)
		sub, ok := dirs[it.Entry]
		if !ok {
			return nil, fmt.Errorf("entry %s not found in harness sources", it.Entry)
		}
		bySub[sub] = append(bySub[sub], i)
	}
	results := make([]replayResult, len(items))
	ov, real := buildOverlay()
	_ = ov
	tmp, err := os.MkdirTemp("", "gosym-replay-")
	if err != nil {
		return nil, err
	}
	defer os.RemoveAll(tmp)
	for sub, idxs := range bySub {
		// generate the dispatch test
		var names []string
		for n, s := range dirs {
			if s == sub {
				names = append(names, n)
			}
		}
		sort.Strings(names)
		var sb strings.Builder
		fmt.Fprintf(&sb, "package %s\n\nimport (\n\t\"encoding/json\"\n\t\"fmt\"\n\t\"os\"\n\t\"testing\"\n\n\t\"github.com/MinterTeam/mhub2/module/x/zzverif/vrt\"\n)\n\n", pkgNameOf(sub))
		sb.WriteString("var zzEntries = map[string]func(){\n")
		for _, n := range names {
			fmt.Fprintf(&sb, "\t%q: %s,\n", n, n)
		}
		sb.WriteString("}\n\n")
		sb.WriteString(`type zzItem struct {
	Entry string ` + "`json:\"entry\"`" + `
	File  string ` + "`json:\"file\"`" + `
}
type zzRes struct {
	Panicked bool     ` + "`json:\"panicked\"`" + `
	PanicMsg string   ` + "`json:\"panic_msg\"`" + `
	Failed   []string ` + "`json:\"failed\"`" + `
	Reached  []string ` + "`json:\"reached\"`" + `
	AssumeBad bool    ` + "`json:\"assume_bad\"`" + `
}

func TestZZReplay(t *testing.T) {
	data, err := os.ReadFile(os.Getenv("ZZ_REPLAY_LIST"))
	if err != nil {
		t.Fatal(err)
	}
	var items []zzItem
	if err := json.Unmarshal(data, &items); err != nil {
		t.Fatal(err)
	}
	var out []zzRes
	for _, it := range items {
		if err := vrt.LoadReplay(it.File); err != nil {
			t.Fatal(err)
		}
		var r zzRes
		func() {
			defer func() {
				if rec := recover(); rec != nil {
					r.Panicked = true
					r.PanicMsg = fmt.Sprint(rec)
				}
			}()
			zzEntries[it.Entry]()
		}()
		r.Failed, r.Reached = vrt.Failed, vrt.Reached
		r.AssumeBad = len(vrt.AssumeBad) > 0
		out = append(out, r)
	}
	b, _ := json.Marshal(out)
	os.WriteFile(os.Getenv("ZZ_REPLAY_OUT"), b, 0644)
}
`)
		testReal := filepath.Join(tmp, "zz_replay_"+sub+"_test.go")
		os.WriteFile(testReal, []byte(sb.String()), 0o644)
		repl := map[string]string{}
		for v, r := range real {
			repl[v] = r
		}
		pkgDir := filepath.Join(repoRoot, overlayDirs[sub])
		repl[filepath.Join(pkgDir, "zz_replay_test.go")] = testReal
		ovb, _ := json.Marshal(map[string]interface{}{"Replace": repl})
		ovFile := filepath.Join(tmp, "overlay-"+sub+".json")
		os.WriteFile(ovFile, ovb, 0o644)
		type li struct {
			Entry string `json:"entry"`
			File  string `json:"file"`
		}
		var list []li
		for _, i := range idxs {
			list = append(list, li{items[i].Entry, items[i].File})
		}
		lb, _ := json.Marshal(list)
		listFile := filepath.Join(tmp, "list-"+sub+".json")
		outFile := filepath.Join(tmp, "out-"+sub+".json")
		os.WriteFile(listFile, lb, 0o644)
		cmd := exec.Command("go", "test", "-vet=off", "-count=1", "-run", "^TestZZReplay$", "-overlay", ovFile, "-timeout", "600s", ".")
		cmd.Dir = pkgDir
		if cfg.Dir == "synthetic" {
			sd, err := syntheticModule()
			if err != nil {
				return nil, err
			}
			defer os.RemoveAll(sd)
			cmd = exec.Command("go", "test", "-vet=off", "-count=1", "-run", "^TestZZReplay$", "-overlay", ovFile, "-timeout", "600s",
				"github.com/MinterTeam/mhub2/"+overlayDirs[sub])
			cmd.Dir = sd
		}
		env := append(os.Environ(), "GOFLAGS=-mod=mod", "GOPROXY=off", "GOSUMDB=off", "GOTOOLCHAIN=local", "ZZ_REPLAY_LIST="+listFile, "ZZ_REPLAY_OUT="+outFile)
		if sub == "connmain" {
			// package main of the connector parses the command line and reads its configuration file in a package
			// initialiser, before the testing flags exist: build the test binary and start it with -config only
			bin := filepath.Join(tmp, "connmain.test")
			build := exec.Command("go", "test", "-c", "-vet=off", "-overlay", ovFile, "-o", bin, "github.com/MinterTeam/mhub2/"+overlayDirs[sub])
			build.Dir = cmd.Dir
			build.Env = env
			if bo, berr := build.CombinedOutput(); berr != nil {
				return nil, fmt.Errorf("go test -c (native replay of package main) failed: %v\n%s", berr, tail(string(bo), 30))
			}
			toml := filepath.Join(tmp, "config.toml")
			os.WriteFile(toml, []byte("[minter]\nmultisig_addr = \"Mx00000000000000000000000000000000000000aa\"\nchain = \"testnet\"\napi_addr = \"http://127.0.0.1:1\"\nprivate_key = \"\"\nstart_block = 0\nstart_event_nonce = 1\nstart_batch_nonce = 1\nstart_valset_nonce = 0\n\n[cosmos]\nmnemonic = \"\"\ngrpc_addr = \"127.0.0.1:1\"\nrpc_addr = \"http://127.0.0.1:1\"\n"), 0o644)
			cmd = exec.Command(bin, "-config", toml)
			cmd.Dir = tmp
		}
		cmd.Env = env
		if os.Getenv("ZZ_DEBUG") != "" {
			cmd.Args = append(cmd.Args[:2], append([]string{"-v"}, cmd.Args[2:]...)...)
		}
		outb, err := cmd.CombinedOutput()
		if os.Getenv("ZZ_DEBUG") != "" {
			fmt.Println(string(outb))
		}
		data, rerr := os.ReadFile(outFile)
		if rerr != nil {
			return nil, fmt.Errorf("go test (native replay) failed: %v\n%s", err, tail(string(outb), 30))
		}
		var rs []struct {
			Panicked  bool     `json:"panicked"`
			PanicMsg  string   `json:"panic_msg"`
			Failed    []string `json:"failed"`
			Reached   []string `json:"reached"`
			AssumeBad bool     `json:"assume_bad"`
		}
		json.Unmarshal(data, &rs)
		for k, i := range idxs {
			it := items[i]
			if k >= len(rs) {
				results[i] = replayResult{false, "no result"}
				continue
			}
			r := rs[k]
			switch {
			case r.AssumeBad:
				results[i] = replayResult{false, "an assumption of the harness is false under the solver's assignment"}
			case it.Kind == "witness":
				if r.Panicked {
					results[i] = replayResult{false, "native run panicked: " + r.PanicMsg}
				} else if extra := notIn(r.Failed, it.Expect); len(extra) > 0 {
					results[i] = replayResult{false, "native run fails " + strings.Join(extra, ",")}
				} else {
					results[i] = replayResult{true, ""}
				}
			case it.ExpectPan:
				results[i] = replayResult{r.Panicked, "native run did not panic"}
			default:
				ok := false
				for _, f := range r.Failed {
					if f == it.Obligation {
						ok = true
					}
				}
				d := "native run does not fail the assertion (failed: " + strings.Join(r.Failed, ",") + ")"
				if r.Panicked {
					d += " panicked: " + r.PanicMsg
				}
				results[i] = replayResult{ok, d}
			}
		}
	}
	return results, nil
}

func tail(s string, n int) string {
	lines := strings.Split(s, "\n")
	if len(lines) > n {
		lines = lines[len(lines)-n:]
	}
	return strings.Join(lines, "\n")
}

func replayOne(pid string, cfg *CheckCfg, path string) int {
	data, err := os.ReadFile(path)
	if err != nil {
		fmt.Println("ERROR", err)
		return 2
	}
	var it replayItem
	if err := json.Unmarshal(data, &it); err != nil {
		fmt.Println("ERROR", err)
		return 2
	}
	it.File = path
	if it.Kind == "" {
		it.Kind = "violation"
	}
	tmpf := path
	// do not rewrite the file: build a list pointing at it
	items := []replayItem{it}
	_ = tmpf
	res, err := runNativeReplaysNoWrite(cfg, items)
	if err != nil {
		fmt.Println("ERROR", err)
		return 2
	}
	if res[0].OK {
		if it.Kind == "witness" {
			fmt.Println("witness replays natively")
			return 0
		}
		fmt.Printf("VIOLATION property=%s replay=%s\n  reproduced natively: obligation %s\n", pid, path, it.Obligation)
		return 1
	}
	fmt.Println("not reproduced:", res[0].Detail)
	return 0
}

func runNativeReplaysNoWrite(cfg *CheckCfg, items []replayItem) ([]replayResult, error) {
	// runNativeReplays rewrites the replay file from the item; items loaded from a file carry the same content
	return runNativeReplays(cfg, items)
}

func notIn(xs, allowed []string) []string {
	ok := map[string]bool{}
	for _, a := range allowed {
		ok[a] = true
	}
	var out []string
	for _, x := range xs {
		if !ok[x] {
			out = append(out, x)
		}
	}
	return out
}
