package main

import (
	"bufio"
	"fmt"
	"io"
	"math/big"
	"os/exec"
	"strings"
	"time"
)

// Solver wraps one persistent SMT solver process.
type Solver struct {
	cmd     *exec.Cmd
	in      io.WriteCloser
	out     *bufio.Reader
	p       *printer
	frames  []frame // push/pop bookkeeping for definitions
	Queries int
	Time    time.Duration
	name    string
	timeout int // ms
	log     io.Writer
	Unknown int
	saved   []savedState
	lastErr string
}

type savedState struct {
	defs map[int]bool
	decl map[string]bool
	uf   map[string]bool
}

type frame struct {
	defs  []int
	decls []string
	ufs   []string
}

var solverCmds = map[string][]string{
	"z3":     {"z3", "-in", "-smt2"},
	"z3-new": {"z3-new", "-in", "-smt2"},
	"cvc5":   {"cvc5", "--incremental", "--lang=smt2", "--produce-models", "--nl-ext-tplanes"},
}

func NewSolver(name string, timeoutMs int) (*Solver, error) {
	args := solverCmds[name]
	if args == nil {
		return nil, fmt.Errorf("unknown solver %s", name)
	}
	cmd := exec.Command(args[0], args[1:]...)
	in, _ := cmd.StdinPipe()
	outp, _ := cmd.StdoutPipe()
	cmd.Stderr = cmd.Stdout
	if err := cmd.Start(); err != nil {
		return nil, err
	}
	s := &Solver{cmd: cmd, in: in, out: bufio.NewReaderSize(outp, 1<<20), name: name, timeout: timeoutMs}
	s.Reset()
	return s, nil
}

func (s *Solver) send(txt string) {
	if s.log != nil {
		io.WriteString(s.log, txt)
	}
	io.WriteString(s.in, txt)
}

func (s *Solver) Reset() {
	s.send("(reset)\n")
	if s.name == "cvc5" {
		s.send("(set-logic ALL)\n")
		s.send(fmt.Sprintf("(set-option :tlimit-per %d)\n", s.timeout))
	} else {
		s.send(fmt.Sprintf("(set-option :timeout %d)\n", s.timeout))
	}
	s.p = &printer{defined: map[int]bool{}, decl: map[string]bool{}, ufdecl: map[string]bool{}}
	s.frames = nil
}

func (s *Solver) Close() {
	s.send("(exit)\n")
	s.in.Close()
	done := make(chan struct{})
	go func() { s.cmd.Wait(); close(done) }()
	select {
	case <-done:
	case <-time.After(2 * time.Second):
		s.cmd.Process.Kill()
	}
}

func (s *Solver) emit(t *Term) string {
	var sb strings.Builder
	s.p.out = &sb
	before := map[int]bool{}
	_ = before
	nd, ndecl, nuf := len(s.p.defined), len(s.p.decl), len(s.p.ufdecl)
	_ = nd
	_ = ndecl
	_ = nuf
	r := s.p.ref(t)
	s.send(sb.String())
	return r
}

// Assert adds t to the current frame.
func (s *Solver) Assert(t *Term) {
	if t.IsConst() && t.B {
		return
	}
	r := s.emit(t)
	s.send("(assert " + r + ")\n")
}

// Push/Pop. Definitions made inside a frame are forgotten at Pop.
func (s *Solver) Push() {
	snapDefs := make(map[int]bool, len(s.p.defined))
	for k := range s.p.defined {
		snapDefs[k] = true
	}
	snapDecl := make(map[string]bool, len(s.p.decl))
	for k := range s.p.decl {
		snapDecl[k] = true
	}
	snapUf := make(map[string]bool, len(s.p.ufdecl))
	for k := range s.p.ufdecl {
		snapUf[k] = true
	}
	s.saved = append(s.saved, savedState{snapDefs, snapDecl, snapUf})
	s.send("(push 1)\n")
}

func (s *Solver) Pop() {
	st := s.saved[len(s.saved)-1]
	s.saved = s.saved[:len(s.saved)-1]
	s.p.defined, s.p.decl, s.p.ufdecl = st.defs, st.decl, st.uf
	s.send("(pop 1)\n")
}

type Result int

const (
	Sat Result = iota
	Unsat
	Unknown
)

func (r Result) String() string { return [...]string{"sat", "unsat", "unknown"}[r] }

func (s *Solver) readLine() string {
	line, err := s.out.ReadString('\n')
	if err != nil {
		return "(error \"solver died: " + err.Error() + "\")"
	}
	return strings.TrimSpace(line)
}

func (s *Solver) Check() Result {
	t0 := time.Now()
	s.send("(check-sat)\n")
	line := s.readLine()
	for line == "" {
		line = s.readLine()
	}
	s.Queries++
	s.Time += time.Since(t0)
	switch line {
	case "sat":
		return Sat
	case "unsat":
		return Unsat
	case "unknown", "timeout":
		s.Unknown++
		return Unknown
	}
	// error or anything else: inconclusive
	s.Unknown++
	s.lastErr = line
	return Unknown
}

// CheckWith: is (current assertions ∧ t) satisfiable?
func (s *Solver) CheckWith(t *Term) Result {
	if t.IsConst() {
		if !t.B {
			return Unsat
		}
	}
	s.Push()
	s.Assert(t)
	r := s.Check()
	s.Pop()
	return r
}

// Model returns values for the given variables; must follow a Sat Check() in the same frame.
func (s *Solver) Model(vars []*Term) map[string]string {
	out := map[string]string{}
	if len(vars) == 0 {
		return out
	}
	var names []string
	for _, v := range vars {
		if s.p.decl[v.Name] {
			names = append(names, smtName(v.Name))
		}
	}
	if len(names) == 0 {
		return out
	}
	s.send("(get-value (" + strings.Join(names, " ") + "))\n")
	// read balanced s-expression
	depth := 0
	var sb strings.Builder
	started := false
	for {
		line, err := s.out.ReadString('\n')
		if err != nil {
			break
		}
		sb.WriteString(line)
		inBar := false
		for _, ch := range line {
			if ch == '|' {
				inBar = !inBar
			}
			if inBar {
				continue
			}
			if ch == '(' {
				depth++
				started = true
			} else if ch == ')' {
				depth--
			}
		}
		if started && depth <= 0 {
			break
		}
	}
	parseModel(sb.String(), out)
	return out
}

func parseModel(txt string, out map[string]string) {
	// tokens
	toks := tokenize(txt)
	pos := 0
	var parse func() interface{}
	parse = func() interface{} {
		if pos >= len(toks) {
			return nil
		}
		t := toks[pos]
		pos++
		if t == "(" {
			var l []interface{}
			for pos < len(toks) && toks[pos] != ")" {
				l = append(l, parse())
			}
			pos++
			return l
		}
		return t
	}
	top, _ := parse().([]interface{})
	for _, e := range top {
		pair, ok := e.([]interface{})
		if !ok || len(pair) != 2 {
			continue
		}
		name, _ := pair[0].(string)
		name = strings.Trim(name, "|")
		out[name] = sexprValue(pair[1])
	}
}

func tokenize(s string) []string {
	var toks []string
	i := 0
	for i < len(s) {
		c := s[i]
		switch {
		case c == '(' || c == ')':
			toks = append(toks, string(c))
			i++
		case c == ' ' || c == '\n' || c == '\t' || c == '\r':
			i++
		case c == '|':
			j := strings.IndexByte(s[i+1:], '|')
			toks = append(toks, s[i:i+j+2])
			i += j + 2
		default:
			j := i
			for j < len(s) && !strings.ContainsRune("() \n\t\r", rune(s[j])) {
				j++
			}
			toks = append(toks, s[i:j])
			i = j
		}
	}
	return toks
}

// sexprValue renders ints as decimal strings ("-5"), bools as "true"/"false", reals as "a/b".
func sexprValue(e interface{}) string {
	switch v := e.(type) {
	case string:
		return strings.TrimSuffix(v, ".0")
	case []interface{}:
		if len(v) == 2 && v[0] == "-" {
			x := sexprValue(v[1])
			if strings.HasPrefix(x, "-") {
				return x[1:]
			}
			return "-" + x
		}
		if len(v) == 3 && v[0] == "/" {
			a, b := sexprValue(v[1]), sexprValue(v[2])
			ra, ok1 := new(big.Rat).SetString(a)
			rb, ok2 := new(big.Rat).SetString(b)
			if ok1 && ok2 && rb.Sign() != 0 {
				return new(big.Rat).Quo(ra, rb).String()
			}
			return a + "/" + b
		}
	}
	return fmt.Sprint(e)
}
