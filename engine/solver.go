package main

import (
	"bufio"
	"fmt"
	"io"
	"math/big"
	"os"
	"os/exec"
	"strings"
	"time"
)

// Solver wraps one persistent SMT solver process.
type Solver struct {
	cmd     *exec.Cmd
	in      io.WriteCloser
	out     *bufio.Reader
	p       *printer
	frames  []frame // push/pop bookkeeping for definitions
	Queries int
	Time    time.Duration
	name    string
	timeout int // ms
	log     io.Writer
	Unknown int
	saved   []savedState
	lastErr string
	seed    int
	stack   [][]*Term // asserted terms per frame (frame 0 = base)
	fb      *Solver   // non-incremental fallback process
	useFB   bool
	incTimeout int
	Fallbacks int
	QueryTimeout int // timeout (ms) of the fresh solve for the next queries; 0 = solver default
	fbTimeout int
}

type savedState struct {
	defs map[int]bool
	decl map[string]bool
	uf   map[string]bool
}

type frame struct {
	defs  []int
	decls []string
	ufs   []string
}

var solverCmds = map[string][]string{
	"z3":     {"z3", "-in", "-smt2"},
	"z3-new": {"z3-new", "-in", "-smt2"},
	"cvc5":   {"cvc5", "--incremental", "--lang=smt2", "--produce-models", "--nl-ext-tplanes"},
}

func NewSolver(name string, timeoutMs int) (*Solver, error) {
	args := solverCmds[name]
	if args == nil {
		return nil, fmt.Errorf("unknown solver %s", name)
	}
	cmd := exec.Command(args[0], args[1:]...)
	in, _ := cmd.StdinPipe()
	outp, _ := cmd.StdoutPipe()
	cmd.Stderr = cmd.Stdout
	if err := cmd.Start(); err != nil {
		return nil, err
	}
	s := &Solver{cmd: cmd, in: in, out: bufio.NewReaderSize(outp, 1<<20), name: name, timeout: timeoutMs}
	if f := os.Getenv("GOSYM_SMTLOG"); f != "" {
		if w, err := os.OpenFile(fmt.Sprintf("%s.%d", f, cmd.Process.Pid), os.O_CREATE|os.O_WRONLY|os.O_TRUNC, 0o644); err == nil {
			s.log = w
		}
	}
	s.Reset()
	return s, nil
}

func (s *Solver) send(txt string) {
	if s.log != nil {
		io.WriteString(s.log, txt)
	}
	io.WriteString(s.in, txt)
}

func (s *Solver) Reset() {
	s.send("(reset)\n")
	if s.name == "cvc5" {
		s.send("(set-logic ALL)\n")
		s.send(fmt.Sprintf("(set-option :tlimit-per %d)\n", s.timeout))
	} else {
		to := s.timeout
		if s.incTimeout > 0 {
			to = s.incTimeout
		}
		s.send(fmt.Sprintf("(set-option :timeout %d)\n", to))
		if s.seed != 0 {
			s.send(fmt.Sprintf("(set-option :smt.random_seed %d)\n(set-option :sat.random_seed %d)\n", s.seed, s.seed))
		}
	}
	s.p = &printer{defined: map[int]bool{}, decl: map[string]bool{}, ufdecl: map[string]bool{}}
	s.frames = nil
	s.stack = [][]*Term{nil}
	s.useFB = false
}

// WithFallback attaches a second solver process used non-incrementally when the incremental one gives up.
func (s *Solver) WithFallback(incTimeoutMs int) error {
	fb, err := NewSolver(s.name, s.timeout)
	if err != nil {
		return err
	}
	s.fb = fb
	s.incTimeout = incTimeoutMs
	s.Reset()
	return nil
}

func (s *Solver) Close() {
	if s.fb != nil {
		s.fb.Close()
	}
	s.send("(exit)\n")
	s.in.Close()
	done := make(chan struct{})
	go func() { s.cmd.Wait(); close(done) }()
	select {
	case <-done:
	case <-time.After(2 * time.Second):
		s.cmd.Process.Kill()
	}
}

func (s *Solver) emit(t *Term) string {
	var sb strings.Builder
	s.p.out = &sb
	before := map[int]bool{}
	_ = before
	nd, ndecl, nuf := len(s.p.defined), len(s.p.decl), len(s.p.ufdecl)
	_ = nd
	_ = ndecl
	_ = nuf
	r := s.p.ref(t)
	s.send(sb.String())
	return r
}

// Assert adds t to the current frame.
func (s *Solver) Assert(t *Term) {
	if t.IsConst() && t.B {
		return
	}
	s.stack[len(s.stack)-1] = append(s.stack[len(s.stack)-1], t)
	r := s.emit(t)
	s.send("(assert " + r + ")\n")
}

// Push/Pop. Definitions made inside a frame are forgotten at Pop.
func (s *Solver) Push() {
	snapDefs := make(map[int]bool, len(s.p.defined))
	for k := range s.p.defined {
		snapDefs[k] = true
	}
	snapDecl := make(map[string]bool, len(s.p.decl))
	for k := range s.p.decl {
		snapDecl[k] = true
	}
	snapUf := make(map[string]bool, len(s.p.ufdecl))
	for k := range s.p.ufdecl {
		snapUf[k] = true
	}
	s.saved = append(s.saved, savedState{snapDefs, snapDecl, snapUf})
	s.stack = append(s.stack, nil)
	s.send("(push 1)\n")
}

func (s *Solver) Pop() {
	st := s.saved[len(s.saved)-1]
	s.saved = s.saved[:len(s.saved)-1]
	s.p.defined, s.p.decl, s.p.ufdecl = st.defs, st.decl, st.uf
	s.stack = s.stack[:len(s.stack)-1]
	s.send("(pop 1)\n")
}

var slowLog = os.Getenv("GOSYM_SLOW") != ""

type Result int

const (
	Sat Result = iota
	Unsat
	Unknown
)

func (r Result) String() string { return [...]string{"sat", "unsat", "unknown"}[r] }

func (s *Solver) readLine() string {
	line, err := s.out.ReadString('\n')
	if err != nil {
		return "(error \"solver died: " + err.Error() + "\")"
	}
	return strings.TrimSpace(line)
}

func (s *Solver) Check() Result {
	t0 := time.Now()
	s.send("(check-sat)\n")
	line := s.readLine()
	for line == "" {
		line = s.readLine()
	}
	s.Queries++
	s.Time += time.Since(t0)
	if s.log != nil {
		fmt.Fprintf(s.log, "; -> %s in %.2fs\n", line, time.Since(t0).Seconds())
	}
	if slowLog && time.Since(t0) > 2*time.Second {
		fmt.Printf("  slow query %.1fs -> %s\n", time.Since(t0).Seconds(), line)
	}
	s.useFB = false
	switch line {
	case "sat":
		return Sat
	case "unsat":
		return Unsat
	}
	if line != "unknown" && line != "timeout" {
		s.lastErr = line
	}
	// incremental mode gave up (or errored): decide the same assertion set from scratch in a fresh context,
	// where z3 applies its full preprocessing
	if s.fb != nil {
		s.Fallbacks++
		s.fb.fbTimeout = s.QueryTimeout
		r := s.fb.solveFresh(s.stack)
		s.Time += s.fb.Time
		s.fb.Time = 0
		if r != Unknown {
			s.useFB = r == Sat
			return r
		}
		s.lastErr = s.fb.lastErr
	}
	s.Unknown++
	return Unknown
}

func (s *Solver) solveFresh(stack [][]*Term) Result {
	s.Reset()
	if s.fbTimeout > 0 {
		s.send(fmt.Sprintf("(set-option :timeout %d)\n", s.fbTimeout))
	}
	for _, fr := range stack {
		for _, t := range fr {
			r := s.emit(t)
			s.send("(assert " + r + ")\n")
		}
	}
	t0 := time.Now()
	s.send("(check-sat)\n")
	line := s.readLine()
	for line == "" {
		line = s.readLine()
	}
	s.Time += time.Since(t0)
	if s.log != nil {
		fmt.Fprintf(s.log, "; fresh -> %s in %.2fs\n", line, time.Since(t0).Seconds())
	}
	switch line {
	case "sat":
		return Sat
	case "unsat":
		return Unsat
	}
	if line != "unknown" && line != "timeout" {
		s.lastErr = line
	}
	return Unknown
}

// CheckWith: is (current assertions ∧ t) satisfiable?
func (s *Solver) CheckWith(t *Term) Result {
	if t.IsConst() {
		if !t.B {
			return Unsat
		}
	}
	s.Push()
	s.Assert(t)
	r := s.Check()
	s.Pop()
	return r
}

// Model returns values for the given variables; must follow a Sat Check() in the same frame.
func (s *Solver) Model(vars []*Term) map[string]string {
	if s.useFB && s.fb != nil {
		return s.fb.Model(vars)
	}
	out := map[string]string{}
	if len(vars) == 0 {
		return out
	}
	var names []string
	for _, v := range vars {
		if s.p.decl[v.Name] {
			names = append(names, smtName(v.Name))
		}
	}
	if len(names) == 0 {
		return out
	}
	s.send("(get-value (" + strings.Join(names, " ") + "))\n")
	// read balanced s-expression
	depth := 0
	var sb strings.Builder
	started := false
	for {
		line, err := s.out.ReadString('\n')
		if err != nil {
			break
		}
		sb.WriteString(line)
		inBar := false
		for _, ch := range line {
			if ch == '|' {
				inBar = !inBar
			}
			if inBar {
				continue
			}
			if ch == '(' {
				depth++
				started = true
			} else if ch == ')' {
				depth--
			}
		}
		if started && depth <= 0 {
			break
		}
	}
	parseModel(sb.String(), out)
	return out
}

func parseModel(txt string, out map[string]string) {
	// tokens
	toks := tokenize(txt)
	pos := 0
	var parse func() interface{}
	parse = func() interface{} {
		if pos >= len(toks) {
			return nil
		}
		t := toks[pos]
		pos++
		if t == "(" {
			var l []interface{}
			for pos < len(toks) && toks[pos] != ")" {
				l = append(l, parse())
			}
			pos++
			return l
		}
		return t
	}
	top, _ := parse().([]interface{})
	for _, e := range top {
		pair, ok := e.([]interface{})
		if !ok || len(pair) != 2 {
			continue
		}
		name, _ := pair[0].(string)
		name = strings.Trim(name, "|")
		out[name] = sexprValue(pair[1])
	}
}

func tokenize(s string) []string {
	var toks []string
	i := 0
	for i < len(s) {
		c := s[i]
		switch {
		case c == '(' || c == ')':
			toks = append(toks, string(c))
			i++
		case c == ' ' || c == '\n' || c == '\t' || c == '\r':
			i++
		case c == '|':
			j := strings.IndexByte(s[i+1:], '|')
			toks = append(toks, s[i:i+j+2])
			i += j + 2
		default:
			j := i
			for j < len(s) && !strings.ContainsRune("() \n\t\r", rune(s[j])) {
				j++
			}
			toks = append(toks, s[i:j])
			i = j
		}
	}
	return toks
}

// sexprValue renders ints as decimal strings ("-5"), bools as "true"/"false", reals as "a/b".
func sexprValue(e interface{}) string {
	switch v := e.(type) {
	case string:
		return strings.TrimSuffix(v, ".0")
	case []interface{}:
		if len(v) == 2 && v[0] == "-" {
			x := sexprValue(v[1])
			if strings.HasPrefix(x, "-") {
				return x[1:]
			}
			return "-" + x
		}
		if len(v) == 3 && v[0] == "/" {
			a, b := sexprValue(v[1]), sexprValue(v[2])
			ra, ok1 := new(big.Rat).SetString(a)
			rb, ok2 := new(big.Rat).SetString(b)
			if ok1 && ok2 && rb.Sign() != 0 {
				return new(big.Rat).Quo(ra, rb).String()
			}
			return a + "/" + b
		}
	}
	return fmt.Sprint(e)
}
