package main

import (
	"encoding/json"
	"fmt"
	"strings"
	"go/types"
	"math/big"
)

const (
	ethCrypto = "github.com/ethereum/go-ethereum/crypto"
	ethAbi    = "github.com/ethereum/go-ethereum/accounts/abi"
)

type abiPack struct {
	abi    string
	method string
	args   []Value
	id     *Term
	skip   int // bytes sliced off the front (the 4-byte selector)
}

func init() {
	reg := func(name string, f intrinsic) { intrinsics[name] = f }

	// abi.JSON: the parsed ABI is a handle carrying the JSON text
	reg(ethAbi+".JSON", func(ex *Exec, a []Value, _ *Frame) Value {
		abiT := ex.namedType(ethAbi, "ABI")
		text := "?"
		// strings.NewReader(s): *strings.Reader{s, i, prevRune}
		if iv, ok := a[0].(Iface); ok {
			if p, ok := iv.V.(Ptr); ok && p.O != nil {
				if st, ok := ex.load(p).(Struct); ok && len(st.F) > 0 {
					if s, ok := st.F[0].(Str); ok {
						if cs, ok := concreteString(s); ok {
							text = cs
						}
					}
				}
			}
		}
		z := ex.zero(abiT).(Struct)
		v := Struct{append([]Value{}, z.F...)}
		sigs, err := parseABI(text)
		if err != nil {
			return Tuple{v, ex.mkError(ex.strConst("abi: " + err.Error()))}
		}
		ex.lastABI = sigs
		return Tuple{v, Iface{}}
	})
	// (ABI).Pack: 4 selector bytes (function of ABI text and method) followed by an injective encoding of the arguments
	reg("("+ethAbi+".ABI).Pack", func(ex *Exec, a []Value, _ *Frame) Value {
		method := a[1].(Str)
		ms, _ := concreteString(method)
		var args []Value
		if s := a[2].(Slice); s.Len > 0 {
			args = ex.sliceElems(s)
		}
		ex.noteAssumption("go-ethereum abi.Pack is modelled as an injective uninterpreted function of (ABI JSON, method, argument vector)")
		inputs, found := ex.lastABI[ms]
		if !found {
			return Tuple{Slice{}, ex.mkError(ex.strConst("method '" + ms + "' not found"))}
		}
		if len(strings.Split(inputs, ",")) != len(args) && !(inputs == "" && len(args) == 0) {
			return Tuple{Slice{}, ex.mkError(ex.strConst("argument count mismatch"))}
		}
		p := &abiPack{abi: inputs, method: ms, args: args}
		return Tuple{Slice{Blob: &Blob{Pack: p, Empty: ex.tf.False}}, Iface{}}
	})
	// crypto.SigToPub / PubkeyToAddress: recover(digest, sig) as an uninterpreted function; recovery may fail
	reg(ethCrypto+".SigToPub", func(ex *Exec, a []Value, _ *Frame) Value {
		digest := ex.sliceBytesOrBlob(a[0].(Slice))
		sig := ex.sliceBytes(a[1].(Slice))
		ex.noteAssumption("secp256k1 recovery (crypto.SigToPub + PubkeyToAddress) is an uninterpreted function recover(digest, signature) that may also fail")
		if len(sig) != 65 {
			return Tuple{Ptr{}, ex.mkError(ex.strConst("invalid signature length"))}
		}
		key := "recover!" + termsKey(digest) + "!" + termsKey(sig)
		fails, seen := ex.env["sigfail!"+key]
		if !seen {
			fails = ex.choose(2, "sigtopub") == 1
			ex.env["sigfail!"+key] = fails
		}
		if fails.(bool) {
			return Tuple{Ptr{}, ex.mkError(ex.strConst("recovery failed"))}
		}
		pkT := ex.namedType("crypto/ecdsa", "PublicKey")
		o := ex.newObj(Opaque{Desc: "pubkey", Data: &recovered{key: key, digest: digest, sig: sig}}, pkT)
		return Tuple{Ptr{O: o}, Iface{}}
	})
	reg(ethCrypto+".PubkeyToAddress", func(ex *Exec, a []Value, _ *Frame) Value {
		op, ok := a[0].(Opaque)
		if !ok {
			panic(engineErr("PubkeyToAddress of a non-recovered key"))
		}
		r := op.Data.(*recovered)
		return ex.recoverAddr(r)
	})
}

// parseABI: method name -> comma-separated input types
func parseABI(text string) (map[string]string, error) {
	var items []struct {
		Name   string `json:"name"`
		Type   string `json:"type"`
		Inputs []struct {
			Type string `json:"type"`
		} `json:"inputs"`
	}
	if err := json.Unmarshal([]byte(text), &items); err != nil {
		return nil, err
	}
	out := map[string]string{}
	for _, it := range items {
		var ts []string
		for _, in := range it.Inputs {
			ts = append(ts, in.Type)
		}
		out[it.Name] = strings.Join(ts, ",")
	}
	return out, nil
}

type recovered struct {
	key    string
	digest []*Term
	sig    []*Term
	addr   []*Term
}

// recoverAddr: address bytes as an uninterpreted function of (digest, sig): structurally equal inputs share the
// variables; functional consistency for semantically equal inputs is instantiated pairwise.
func (ex *Exec) recoverAddr(r *recovered) Value {
	f := ex.tf
	for _, o := range ex.recovers {
		if o.key == r.key {
			r.addr = o.addr
		}
	}
	if r.addr == nil {
		ex.recCnt++
		r.addr = make([]*Term, 20)
		for i := range r.addr {
			r.addr[i] = f.Var(fmt.Sprintf("recover!%d!%d", ex.recCnt, i), SInt, big0, big.NewInt(255))
		}
		for _, o := range ex.recovers {
			same := f.And(ex.bytesEq(r.digest, o.digest), ex.bytesEq(r.sig, o.sig))
			ex.assume(f.Implies(same, ex.bytesEq(r.addr, o.addr)))
		}
		ex.recovers = append(ex.recovers, r)
	}
	es := make([]Value, 20)
	for i := range es {
		es[i] = Int{r.addr[i]}
	}
	return Array{es}
}

var _ = types.Typ
