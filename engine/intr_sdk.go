package main

import (
	"go/constant"
	"math/big"
	"fmt"
	"go/types"
	"regexp"
	"strings"

	"golang.org/x/tools/go/ssa"
)

const (
	sdkTypes   = "github.com/cosmos/cosmos-sdk/types"
	codecPkg   = "github.com/cosmos/cosmos-sdk/codec"
	codecTypes = "github.com/cosmos/cosmos-sdk/codec/types"
	paramTypes = "github.com/cosmos/cosmos-sdk/x/params/types"
	ethCommon  = "github.com/ethereum/go-ethereum/common"
)

func (ex *Exec) namedType(pkg, name string) types.Type {
	p := ex.prog.ImportedPackage(pkg)
	if p == nil {
		panic(engineErr("package not loaded: " + pkg))
	}
	t := p.Type(name)
	if t == nil {
		panic(engineErr("type not found: " + pkg + "." + name))
	}
	return t.Type()
}

func fieldIndex(t types.Type, name string) int {
	st := t.Underlying().(*types.Struct)
	for i := 0; i < st.NumFields(); i++ {
		if st.Field(i).Name() == name {
			return i
		}
	}
	panic(engineErr("field " + name + " not found in " + t.String()))
}

// harnessIntrinsic: functions of the harness itself that are environment constructors.
func harnessIntrinsic(fn *ssa.Function) intrinsic {
	if fn.Pkg == nil || !strings.HasPrefix(fn.Pkg.Pkg.Path(), "github.com/MinterTeam/mhub2/module/") {
		return nil
	}
	switch fn.Name() {
	case "zzCodec":
		return func(ex *Exec, a []Value, _ *Frame) Value {
			return Iface{T: types.NewPointer(ex.namedType(codecPkg, "ProtoCodec")), V: Opaque{Desc: "codec"}}
		}
	case "zzSubspace":
		return func(ex *Exec, a []Value, _ *Frame) Value {
			return ex.zero(ex.namedType(paramTypes, "Subspace"))
		}
	}
	return nil
}

var denomRe = regexp.MustCompile(`^[a-zA-Z][a-zA-Z0-9/:._-]{2,127}$`)

func init() {
	reg := func(name string, f intrinsic) { intrinsics[name] = f }

	// ---------------- sdk.Context ----------------
	reg("("+sdkTypes+".Context).KVStore", func(ex *Exec, a []Value, fr *Frame) Value {
		ctx := a[0].(Struct)
		ms := ctx.F[fieldIndex(ex.namedType(sdkTypes, "Context"), "ms")]
		msT := ex.namedType(sdkTypes, "MultiStore").Underlying().(*types.Interface)
		var m *types.Func
		for i := 0; i < msT.NumMethods(); i++ {
			if msT.Method(i).Name() == "GetKVStore" {
				m = msT.Method(i)
			}
		}
		fn, rv := ex.lookupMethod(ms, m)
		ex.noteAssumption("sdk.Context.KVStore returns the mounted store directly (gas metering wrapper skipped)")
		return ex.call(fn, []Value{rv, a[1]}, 2, nil, fr)
	})
	reg("("+sdkTypes+".Context).TransientStore", intrinsics["("+sdkTypes+".Context).KVStore"])
	reg(sdkTypes+".ValidateDenom", func(ex *Exec, a []Value, _ *Frame) Value {
		s := a[0].(Str)
		cs, ok := concreteString(s)
		if !ok {
			panic(engineErr("ValidateDenom of a symbolic denom"))
		}
		if denomRe.MatchString(cs) {
			return Iface{}
		}
		return ex.mkError(ex.strConst("invalid denom: " + cs))
	})

	// ---------------- bech32 addresses ----------------
	for _, k := range []struct{ typ, kind string }{{"AccAddress", "acc"}, {"ValAddress", "val"}, {"ConsAddress", "cons"}} {
		k := k
		reg("("+sdkTypes+"."+k.typ+").String", func(ex *Exec, a []Value, _ *Frame) Value {
			s := a[0].(Slice)
			if s.Len == 0 {
				return Str{}
			}
			ex.noteAssumption("bech32 address text is an abstract injective encoding of the address bytes (prefix per address kind)")
			return Str{Enc: &Enc{Kind: k.kind, Data: ex.sliceBytes(s)}}
		})
		reg(sdkTypes+"."+k.typ+"FromBech32", func(ex *Exec, a []Value, _ *Frame) Value {
			s := a[0].(Str)
			fail := func(msg string) Value { return Tuple{Slice{}, ex.mkError(ex.strConst(msg))} }
			if s.Enc != nil {
				if s.Enc.Kind != k.kind {
					return fail("invalid Bech32 prefix")
				}
				if len(s.Enc.Data) == 0 || len(s.Enc.Data) > 255 {
					return fail("address length")
				}
				return Tuple{ex.bytesSlice(s.Enc.Data), Iface{}}
			}
			if s.Opq != nil {
				panic(engineErr("bech32 decoding of an opaque string"))
			}
			cs, ok := concreteString(s)
			if !ok {
				panic(engineErr("bech32 decoding of a symbolic string"))
			}
			if len(strings.TrimSpace(cs)) == 0 {
				return fail("empty address string is not allowed")
			}
			data, kind, ok := decodeBech32Known(cs)
			if !ok || kind != k.kind || len(data) == 0 {
				return fail("decoding bech32 failed")
			}
			var bs []*Term
			for _, b := range data {
				bs = append(bs, ex.tf.I64(int64(b)))
			}
			return Tuple{ex.bytesSlice(bs), Iface{}}
		})
	}
	reg(sdkTypes+".AccAddressFromHex", func(ex *Exec, a []Value, _ *Frame) Value {
		s := a[0].(Str)
		if s.Enc != nil {
			panic(engineErr("AccAddressFromHex of an abstract string"))
		}
		if len(s.B) == 0 {
			return Tuple{Slice{}, ex.mkError(ex.strConst("decoding Bech32 address failed: must provide an address"))}
		}
		bs, okT := ex.hexDecode(s.B)
		if bs == nil || !ex.branchNoSite(okT) {
			return Tuple{Slice{}, ex.mkError(ex.strConst("encoding/hex: invalid"))}
		}
		return Tuple{ex.bytesSlice(bs), Iface{}}
	})

	// ---------------- go-ethereum common ----------------
	reg("("+ethCommon+".Address).Hex", func(ex *Exec, a []Value, _ *Frame) Value {
		arr := a[0].(Array)
		bs := make([]*Term, len(arr.E))
		allConst := true
		for i, e := range arr.E {
			bs[i] = e.(Int).T
			if !bs[i].IsConst() {
				allConst = false
			}
		}
		if allConst {
			zero := true
			for _, b := range bs {
				if b.C.Sign() != 0 {
					zero = false
				}
			}
			if zero {
				return ex.strConst("0x0000000000000000000000000000000000000000")
			}
		}
		return Str{Enc: &Enc{Kind: "hex", Data: bs}}
	})
	reg("("+ethCommon+".Address).String", intrinsics["("+ethCommon+".Address).Hex"])
	reg(ethCommon+".HexToAddress", func(ex *Exec, a []Value, _ *Frame) Value {
		s := a[0].(Str)
		f := ex.tf
		mk := func(bs []*Term) Value {
			// BytesToAddress semantics: right-aligned, cropped from the left
			out := make([]Value, 20)
			for i := range out {
				out[i] = Int{f.I64(0)}
			}
			if len(bs) > 20 {
				bs = bs[len(bs)-20:]
			}
			for i, b := range bs {
				out[20-len(bs)+i] = Int{b}
			}
			return Array{out}
		}
		if s.Enc != nil && s.Enc.Kind == "hex" {
			return mk(s.Enc.Data)
		}
		if s.Enc != nil || s.Opq != nil {
			panic(engineErr("HexToAddress of an abstract non-hex string"))
		}
		b := s.B
		if len(b) >= 2 && b[0].IsConst() && b[0].C.Int64() == '0' && b[1].IsConst() && (b[1].C.Int64() == 'x' || b[1].C.Int64() == 'X') {
			b = b[2:]
		} else if len(b) >= 2 && !(b[0].IsConst() && b[1].IsConst()) {
			has := f.And(f.Eq(b[0], f.I64('0')), f.Or(f.Eq(b[1], f.I64('x')), f.Eq(b[1], f.I64('X'))))
			if ex.branchNoSite(has) {
				b = b[2:]
			}
		}
		if len(b)%2 == 1 {
			b = append([]*Term{f.I64('0')}, b...)
		}
		bs, okT := ex.hexDecode(b)
		if bs == nil || !ex.branchNoSite(okT) {
			// FromHex ignores the error: Hex2Bytes returns the prefix decoded so far
			panic(engineErr("HexToAddress of a string that may be invalid hex"))
		}
		return mk(bs)
	})
	reg(ethCommon+".IsHexAddress", func(ex *Exec, a []Value, _ *Frame) Value {
		s := a[0].(Str)
		f := ex.tf
		if s.Enc != nil {
			return BoolV{f.Bool(s.Enc.Kind == "hex" && len(s.Enc.Data) == 20)}
		}
		if s.Opq != nil {
			panic(engineErr("IsHexAddress of an opaque string"))
		}
		b := s.B
		if len(b) == 42 {
			has := f.And(f.Eq(b[0], f.I64('0')), f.Or(f.Eq(b[1], f.I64('x')), f.Eq(b[1], f.I64('X'))))
			if !ex.branchNoSite(has) {
				return BoolV{f.False}
			}
			b = b[2:]
		}
		if len(b) != 40 {
			return BoolV{f.False}
		}
		_, okT := ex.hexDecode(b)
		return BoolV{okT}
	})
	reg(ethCommon+".Hex2Bytes", func(ex *Exec, a []Value, _ *Frame) Value {
		s := a[0].(Str)
		if s.Enc != nil && s.Enc.Kind == "hex" {
			return ex.bytesSlice(nil) // "0x…": hex.DecodeString stops at 'x' and Hex2Bytes drops the error
		}
		if s.Enc != nil || s.Opq != nil {
			panic(engineErr("Hex2Bytes of an abstract string"))
		}
		// decode pair by pair; stop at the first invalid pair (DecodeString returns the bytes decoded so far)
		var out []*Term
		b := s.B
		for i := 0; i+1 < len(b); i += 2 {
			bs, okT := ex.hexDecode(b[i : i+2])
			if !ex.branchNoSite(okT) {
				break
			}
			out = append(out, bs[0])
		}
		return ex.bytesSlice(out)
	})

	// ---------------- codec ----------------
	pc := "(*" + codecPkg + ".ProtoCodec)."
	marshal := func(ex *Exec, a []Value, _ *Frame) Value {
		return Tuple{ex.marshalMsg(a[1]), Iface{}}
	}
	mustMarshal := func(ex *Exec, a []Value, _ *Frame) Value { return ex.marshalMsg(a[1]) }
	reg(pc+"Marshal", marshal)
	reg(pc+"MustMarshal", mustMarshal)
	reg(pc+"MarshalLengthPrefixed", marshal)
	reg(pc+"MustMarshalLengthPrefixed", mustMarshal)
	unmarshal := func(ex *Exec, a []Value, fr *Frame) Value { return ex.unmarshalMsg(a[1].(Slice), a[2], fr) }
	reg(pc+"Unmarshal", unmarshal)
	reg(pc+"MustUnmarshal", func(ex *Exec, a []Value, fr *Frame) Value {
		if e := ex.unmarshalMsg(a[1].(Slice), a[2], fr).(Iface); e.T != nil {
			panic(&GoPanic{V: e, Msg: "MustUnmarshal failed"})
		}
		return nil
	})
	reg(pc+"UnpackAny", func(ex *Exec, a []Value, fr *Frame) Value { return ex.unpackAny(a[1].(Ptr), a[2], fr) })
	reg("(*"+codecTypes+".interfaceRegistry).UnpackAny", intrinsics[pc+"UnpackAny"])
	reg(pc+"UnmarshalInterface", func(ex *Exec, a []Value, fr *Frame) Value {
		anyT := ex.namedType(codecTypes, "Any")
		obj := ex.newObj(ex.zero(anyT), anyT)
		p := Ptr{O: obj}
		if e := ex.unmarshalMsg(a[1].(Slice), Iface{T: types.NewPointer(anyT), V: p}, fr).(Iface); e.T != nil {
			return e
		}
		return ex.unpackAny(p, a[2], fr)
	})
	reg(pc+"MarshalInterface", func(ex *Exec, a []Value, fr *Frame) Value {
		t := ex.newAny(a[1])
		if e := t[1].(Iface); e.T != nil {
			return Tuple{Slice{}, e}
		}
		anyT := ex.namedType(codecTypes, "Any")
		return Tuple{ex.marshalMsg(Iface{T: types.NewPointer(anyT), V: t[0]}), Iface{}}
	})
	reg(pc+"InterfaceRegistry", func(ex *Exec, a []Value, _ *Frame) Value {
		return Iface{T: types.NewPointer(ex.namedType(codecTypes, "interfaceRegistry")), V: Opaque{Desc: "registry"}}
	})
	reg(codecTypes+".NewAnyWithValue", func(ex *Exec, a []Value, _ *Frame) Value { return ex.newAny(a[0]) })

	// ---------------- params ----------------
	sp := "(" + paramTypes + ".Subspace)."
	reg(sp+"SetParamSet", func(ex *Exec, a []Value, _ *Frame) Value {
		ps := a[2].(Iface)
		fz := ex.freeze(ps.V, ps.T, 0)
		ex.env["paramset!"+ps.T.String()] = Iface{T: ps.T, V: fz}
		return nil
	})
	reg(sp+"GetParamSet", func(ex *Exec, a []Value, _ *Frame) Value {
		ps := a[2].(Iface)
		st, ok := ex.env["paramset!"+ps.T.String()]
		if !ok {
			ex.goPanic("params: parameter set not initialised (UnmarshalJSON of empty value)")
		}
		cp := ex.freeze(st.(Iface).V, ps.T, 0).(Ptr)
		ex.store(ps.V.(Ptr), ex.load(cp))
		return nil
	})
	reg(sp+"Get", func(ex *Exec, a []Value, fr *Frame) Value {
		key := a[2].(Slice)
		target := a[3].(Iface)
		for name, st := range ex.env {
			if !strings.HasPrefix(name, "paramset!") {
				continue
			}
			iv := st.(Iface)
			cp := ex.freeze(iv.V, iv.T, 0)
			mset := ex.prog.MethodSets.MethodSet(iv.T)
			sel := mset.Lookup(nil, "ParamSetPairs")
			if sel == nil {
				continue
			}
			pairs := ex.call(ex.prog.MethodValue(sel), []Value{cp}, 1, nil, fr).(Slice)
			for _, pv := range ex.sliceElems(pairs) {
				pair := pv.(Struct)
				k := pair.F[0].(Slice)
				eq := ex.sliceEq(k, key)
				if !eq.IsConst() {
					panic(engineErr("symbolic params key"))
				}
				if eq.B {
					src := pair.F[1].(Iface).V.(Ptr)
					ex.store(target.V.(Ptr), ex.load(src))
					return nil
				}
			}
		}
		ex.goPanic("params: key not found (parameter set not initialised)")
		return nil
	})
	reg(sp+"HasKeyTable", func(ex *Exec, a []Value, _ *Frame) Value { return BoolV{ex.tf.True} })
	reg(sp+"Has", func(ex *Exec, a []Value, _ *Frame) Value { return BoolV{ex.tf.True} })
}

// hexDecode decodes pairs of hex digits; returns the bytes and a Bool term "all digits valid".
func (ex *Exec) hexDecode(cs []*Term) ([]*Term, *Term) {
	f := ex.tf
	if len(cs)%2 != 0 {
		return nil, f.False
	}
	nib := func(c *Term) (*Term, *Term) {
		if n, ok := ex.hexCharNib[c.ID]; ok {
			return n, f.True
		}
		if c.IsConst() {
			v := c.C.Int64()
			switch {
			case v >= '0' && v <= '9':
				return f.I64(v - '0'), f.True
			case v >= 'a' && v <= 'f':
				return f.I64(v - 'a' + 10), f.True
			case v >= 'A' && v <= 'F':
				return f.I64(v - 'A' + 10), f.True
			}
			return f.I64(0), f.False
		}
		isD := f.And(f.Le(f.I64('0'), c), f.Le(c, f.I64('9')))
		isL := f.And(f.Le(f.I64('a'), c), f.Le(c, f.I64('f')))
		isU := f.And(f.Le(f.I64('A'), c), f.Le(c, f.I64('F')))
		val := f.Ite(isD, f.Sub(c, f.I64('0')), f.Ite(isL, f.Sub(c, f.I64('a'-10)), f.Sub(c, f.I64('A'-10))))
		return val, f.Or(isD, isL, isU)
	}
	okT := f.True
	out := make([]*Term, len(cs)/2)
	for i := range out {
		h, ok1 := nib(cs[2*i])
		l, ok2 := nib(cs[2*i+1])
		okT = f.And(okT, ok1, ok2)
		out[i] = f.Add(f.Mul(h, f.I64(16)), l)
	}
	return out, okT
}

// ---------------- codec model: lossless deep copy ----------------

func isSdkNum(t types.Type) bool {
	return isNamed(t, sdkTypes, "Int") || isNamed(t, sdkTypes, "Dec") || isNamed(t, sdkTypes, "Uint")
}

// freeze deep-copies v (of static type t) into private objects, applying wire normalisation:
// nil sdk.Int/Dec -> 0, empty slices -> nil, Any.cachedValue dropped.
func (ex *Exec) freeze(v Value, t types.Type, depth int) Value {
	if depth > 40 {
		panic(engineErr("freeze depth"))
	}
	switch x := v.(type) {
	case Ptr:
		if x.O == nil {
			return x
		}
		var et types.Type
		if pt, ok := t.Underlying().(*types.Pointer); ok {
			et = pt.Elem()
		} else {
			et = x.O.Typ
		}
		if et == nil {
			et = x.O.Typ
		}
		inner := ex.load(x)
		if _, isBig := inner.(Big); isBig {
			return Ptr{O: ex.newObj(inner, et)}
		}
		return Ptr{O: ex.newObj(ex.freeze(inner, et, depth+1), et)}
	case Struct:
		st, ok := t.Underlying().(*types.Struct)
		if !ok {
			panic(engineErr("freeze: struct value with non-struct type " + t.String()))
		}
		fs := make([]Value, len(x.F))
		if _, isPtr := t.(*types.Pointer); !isPtr && isSdkNum(t) {
			p := x.F[0].(Ptr)
			if p.O == nil {
				fs[0] = ex.newBig(ex.tf.I64(0))
			} else {
				fs[0] = ex.freeze(p, st.Field(0).Type(), depth+1)
			}
			return Struct{fs}
		}
		isAny := isNamed(t, codecTypes, "Any")
		for i := range x.F {
			if isAny && (st.Field(i).Name() == "cachedValue" || st.Field(i).Name() == "compat") {
				fs[i] = ex.zero(st.Field(i).Type())
				continue
			}
			if strings.HasPrefix(st.Field(i).Name(), "XXX_") {
				fs[i] = ex.zero(st.Field(i).Type())
				continue
			}
			fs[i] = ex.freeze(x.F[i], st.Field(i).Type(), depth+1)
		}
		return Struct{fs}
	case Array:
		at := t.Underlying().(*types.Array)
		es := make([]Value, len(x.E))
		for i := range x.E {
			es[i] = ex.freeze(x.E[i], at.Elem(), depth+1)
		}
		return Array{es}
	case Slice:
		if x.Blob != nil {
			return x
		}
		if x.Len == 0 {
			return Slice{}
		}
		sl := t.Underlying().(*types.Slice)
		elems := ex.sliceElems(x)
		out := make([]Value, len(elems))
		for i, e := range elems {
			out[i] = ex.freeze(e, sl.Elem(), depth+1)
		}
		return ex.mkSlice(out, sl.Elem())
	case Iface:
		if x.T == nil {
			return x
		}
		return Iface{T: x.T, V: ex.freeze(x.V, x.T, depth+1)}
	case Map:
		if x.M == nil || len(x.M.Keys) == 0 {
			return Map{}
		}
		panic(engineErr("freeze of a non-empty map"))
	}
	return v
}

// allZero: Bool term "every field has its zero value" (protobuf encodes such a message as 0 bytes).
func (ex *Exec) allZero(v Value, depth int) *Term {
	f := ex.tf
	switch x := v.(type) {
	case Int:
		return f.Eq(x.T, f.I64(0))
	case BoolV:
		return f.Not(x.T)
	case Big:
		return f.False // custom types (Int/Dec) always encode at least "0"
	case Str:
		if x.Enc != nil || x.Opq != nil {
			return f.False
		}
		return f.Bool(len(x.B) == 0)
	case Ptr:
		if x.O == nil {
			return f.True
		}
		return f.False // a present sub-message or custom type emits a tag
	case Slice:
		if x.Blob != nil {
			return x.Blob.Empty
		}
		return f.Bool(x.Len == 0)
	case Struct:
		var cs []*Term
		for _, fv := range x.F {
			cs = append(cs, ex.allZeroField(fv, depth+1))
		}
		return f.And(cs...)
	case Array:
		var cs []*Term
		for _, e := range x.E {
			cs = append(cs, ex.allZero(e, depth+1))
		}
		return f.And(cs...)
	case Iface:
		return f.Bool(x.T == nil)
	case Float:
		return f.Eq(x.T, f.Real(newRat0()))
	}
	return f.False
}

// allZeroField: non-nullable embedded messages are always emitted (tag + length), so a struct field never counts as empty.
func (ex *Exec) allZeroField(v Value, depth int) *Term {
	if _, ok := v.(Struct); ok {
		return ex.tf.False
	}
	return ex.allZero(v, depth)
}

func (ex *Exec) marshalMsg(msg Value) Value {
	iv, ok := msg.(Iface)
	if !ok || iv.T == nil {
		ex.goPanic("runtime error: invalid memory address or nil pointer dereference (Marshal of nil message)")
	}
	p, ok := iv.V.(Ptr)
	if !ok {
		panic(engineErr("Marshal of a non-pointer message " + iv.T.String()))
	}
	if p.O == nil {
		return Slice{Blob: &Blob{V: p, Typ: iv.T, Empty: ex.tf.True}}
	}
	fz := ex.freeze(p, iv.T, 0).(Ptr)
	ex.blobCnt++
	b := &Blob{V: fz, Typ: iv.T, ID: ex.blobCnt}
	b.Empty = ex.allZero(ex.load(fz), 0)
	ex.noteAssumption("protobuf encoding is modelled as a lossless opaque blob (Marshal/Unmarshal = deep copy; empty iff all fields zero)")
	return Slice{Blob: b}
}

func (ex *Exec) unmarshalMsg(bz Slice, target Value, fr *Frame) Value {
	tv, ok := target.(Iface)
	if !ok || tv.T == nil {
		panic(engineErr("Unmarshal into nil"))
	}
	tp := tv.V.(Ptr)
	et := tv.T.Underlying().(*types.Pointer).Elem()
	if bz.Blob == nil {
		if bz.Len != 0 {
			panic(engineErr("Unmarshal of raw (non-message) bytes into " + tv.T.String()))
		}
		ex.store(tp, ex.zero(et))
	} else {
		if !types.Identical(bz.Blob.Typ, tv.T) {
			panic(engineErr("Unmarshal of a " + bz.Blob.Typ.String() + " blob into " + tv.T.String()))
		}
		src := bz.Blob.V.(Ptr)
		if src.O == nil {
			ex.store(tp, ex.zero(et))
		} else {
			cp := ex.freeze(src, tv.T, 0).(Ptr)
			ex.store(tp, ex.load(cp))
		}
	}
	// codec.Unmarshal calls types.UnpackInterfaces(ptr, registry)
	return ex.unpackInterfaces(tv, fr)
}

func (ex *Exec) unpackInterfaces(msg Iface, fr *Frame) Value {
	mset := ex.prog.MethodSets.MethodSet(msg.T)
	var sel *types.Selection
	for i := 0; i < mset.Len(); i++ {
		if mset.At(i).Obj().Name() == "UnpackInterfaces" {
			sel = mset.At(i)
		}
	}
	if sel == nil {
		return Iface{}
	}
	fn := ex.prog.MethodValue(sel)
	unpacker := Iface{T: types.NewPointer(ex.namedType(codecTypes, "interfaceRegistry")), V: Opaque{Desc: "registry"}}
	r := ex.call(fn, []Value{msg.V, unpacker}, 2, nil, fr)
	if e, ok := r.(Iface); ok {
		return e
	}
	return Iface{}
}

func (ex *Exec) newAny(msg Value) Tuple {
	iv, ok := msg.(Iface)
	anyT := ex.namedType(codecTypes, "Any")
	if !ok || iv.T == nil {
		return Tuple{Ptr{}, ex.mkError(ex.strConst("Expecting non nil value to create a new Any"))}
	}
	blob := ex.marshalMsg(iv)
	st := ex.zero(anyT).(Struct)
	fs := append([]Value{}, st.F...)
	fs[fieldIndex(anyT, "TypeUrl")] = ex.strConst("/" + typeURL(iv.T))
	fs[fieldIndex(anyT, "Value")] = blob
	fs[fieldIndex(anyT, "cachedValue")] = iv
	o := ex.newObj(Struct{fs}, anyT)
	ex.noteAssumption("Any.TypeUrl is modelled as '/' + the Go type name of the packed message (injective)")
	return Tuple{Ptr{O: o}, Iface{}}
}

func typeURL(t types.Type) string {
	if p, ok := t.(*types.Pointer); ok {
		t = p.Elem()
	}
	return types.TypeString(t, func(p *types.Package) string { return p.Path() })
}

func (ex *Exec) unpackAny(anyP Ptr, target Value, fr *Frame) Value {
	if anyP.O == nil {
		return Iface{}
	}
	anyT := ex.namedType(codecTypes, "Any")
	st := ex.load(anyP).(Struct)
	url := st.F[fieldIndex(anyT, "TypeUrl")].(Str)
	if cs, ok := concreteString(url); ok && cs == "" {
		return Iface{}
	}
	tv := target.(Iface)
	tgtPtr := tv.V.(Ptr)
	ifaceT := tv.T.Underlying().(*types.Pointer).Elem()
	val := st.F[fieldIndex(anyT, "Value")].(Slice)
	if val.Blob == nil {
		panic(engineErr("UnpackAny of an Any whose Value is not a modelled blob"))
	}
	src := val.Blob.V.(Ptr)
	msgT := val.Blob.Typ
	if it, ok := ifaceT.Underlying().(*types.Interface); ok {
		if !types.Implements(msgT, it) {
			return ex.mkError(ex.strConst("no concrete type registered for type URL against interface " + ifaceT.String()))
		}
	}
	cp := ex.freeze(src, msgT, 0).(Ptr)
	msg := Iface{T: msgT, V: cp}
	if e := ex.unpackInterfaces(msg, fr).(Iface); e.T != nil {
		return e
	}
	ex.store(tgtPtr, msg)
	ex.store(ptrExtend(anyP, fieldIndex(anyT, "cachedValue")), msg)
	return Iface{}
}

func (e *EngineErr) Error() string { return e.Msg }

var _ = fmt.Sprint

func init() {
	reg := func(name string, f intrinsic) { intrinsics[name] = f }
	reg(sdkTypes+".WrapSDKContext", func(ex *Exec, a []Value, _ *Frame) Value {
		return Iface{T: types.NewPointer(ex.namedType("context", "valueCtx")), V: Opaque{Desc: "wrapped sdk.Context", Data: &wrappedCtx{a[0]}}}
	})
	reg(sdkTypes+".UnwrapSDKContext", func(ex *Exec, a []Value, _ *Frame) Value {
		iv, ok := a[0].(Iface)
		if ok {
			if op, ok := iv.V.(Opaque); ok {
				if w, ok := op.Data.(*wrappedCtx); ok {
					return w.ctx
				}
			}
		}
		ex.goPanic("interface conversion: context value is not an sdk.Context")
		return nil
	})
}

type wrappedCtx struct{ ctx Value }

func init() {
	// Summary (exact, branch-free) of the SDK's pure rounding kernel: avoids a 4-way fork per Dec.Mul/Quo.
	intrinsics[sdkTypes+".chopPrecisionAndRound"] = func(ex *Exec, a []Value, _ *Frame) Value {
		f := ex.tf
		d := ex.bigOf(a[0])
		P := f.Int(new(big.Int).Exp(big.NewInt(10), big.NewInt(18), nil))
		H := f.Int(new(big.Int).Mul(big.NewInt(5), new(big.Int).Exp(big.NewInt(10), big.NewInt(17), nil)))
		abs := f.Abs(d)
		q := f.Div(abs, P)
		r := f.Mod(abs, P)
		up := f.Or(f.Lt(H, r), f.And(f.Eq(r, H), f.Eq(f.Mod(q, f.I64(2)), f.I64(1))))
		res := f.Add(q, f.Ite(up, f.I64(1), f.I64(0)))
		if !nonneg(d) {
			res = f.Ite(f.Lt(d, f.I64(0)), f.Neg(res), res)
		}
		ex.noteAssumption("cosmos-sdk chopPrecisionAndRound (banker's rounding at 18 decimals) is summarised by its exact closed form instead of being forked four ways")
		return ex.setBig(a[0], res)
	}
}

func init() {
	// (sdk.Int).Mul: panics ("Int overflow") iff |x*y| needs more than maxBitLen bits. The SDK tests this with
	// BitLen(x)+BitLen(y)-1 > 255 first and BitLen(x*y) > 255 afterwards; together that is exactly |x*y| >= 2^255
	// (BitLen(x)+BitLen(y)-1 <= BitLen(x*y)), which is expressible without a symbolic BitLen sum.
	intrinsics["("+sdkTypes+".Int).Mul"] = func(ex *Exec, a []Value, _ *Frame) Value {
		f := ex.tf
		x := ex.bigOf(a[0].(Struct).F[0])
		y := ex.bigOf(a[1].(Struct).F[0])
		prod := f.Mul(x, y)
		bits := 256
		if c, ok := ex.prog.ImportedPackage(sdkTypes).Members["maxBitLen"].(*ssa.NamedConst); ok {
			if v, ok2 := constant.Int64Val(c.Value.Value); ok2 {
				bits = int(v)
			}
		}
		over := f.Le(f.Int(pow2(bits)), f.Abs(prod))
		if ex.branchNoSite(over) {
			ex.goPanic("Int overflow")
		}
		ex.noteAssumption("(sdk.Int).Mul overflow test is summarised as |x*y| >= 2^maxBitLen (maxBitLen read from the SDK; equivalent to the SDK's two BitLen tests)")
		return Struct{[]Value{ex.newBig(prod)}}
	}
}

func init() {
	// prefix.Store.Iterator(nil, nil) / ReverseIterator(nil, nil) over the harness store: select by key prefix
	// directly instead of computing PrefixEndBytes (which forks on every symbolic 0xff byte); same key set.
	pfx := "github.com/cosmos/cosmos-sdk/store/prefix"
	mk := func(asc bool, orig string) intrinsic {
		return func(ex *Exec, a []Value, fr *Frame) Value {
			st := a[0].(Struct)
			start, end := a[1].(Slice), a[2].(Slice)
			pT := ex.namedType(pfx, "Store")
			parent := st.F[fieldIndex(pT, "parent")].(Iface)
			prefix := st.F[fieldIndex(pT, "prefix")]
			isVrt := parent.T != nil && isNamed(parent.T, vrtPkg, "Store")
			if !isVrt || start.P.O != nil || end.P.O != nil || start.Len != 0 || end.Len != 0 {
				return notHandled{} // explicit bounds or a foreign parent store: run the SDK code

			}
			mset := ex.prog.MethodSets.MethodSet(parent.T)
			sel := mset.Lookup(nil, "PrefixIter")
			if sel == nil {
				panic(engineErr("vrt.Store.PrefixIter not found"))
			}
			it := ex.call(ex.prog.MethodValue(sel), []Value{parent.V, prefix, BoolV{ex.tf.Bool(asc)}}, 3, nil, fr)
			ex.noteAssumption("prefix.Store.Iterator(nil,nil) is evaluated as 'all keys with the prefix, prefix stripped' (equal to the SDK's [prefix, PrefixEndBytes(prefix)) range)")
			return Iface{T: types.NewPointer(ex.namedType(vrtPkg, "Iter")), V: it}
		}
	}
	intrinsics["("+pfx+".Store).Iterator"] = mk(true, "Iterator")
	intrinsics["("+pfx+".Store).ReverseIterator"] = mk(false, "ReverseIterator")
}

func init() {
	// Context.BlockHeader returns a proto.Clone of the header: values are immutable here, a copy is the value itself
	intrinsics["("+sdkTypes+".Context).BlockHeader"] = func(ex *Exec, a []Value, _ *Frame) Value {
		ctx := a[0].(Struct)
		return ctx.F[fieldIndex(ex.namedType(sdkTypes, "Context"), "header")]
	}
}
