package main

import (
	"encoding/json"
	"flag"
	"fmt"
	"os"
	"path/filepath"
	"sort"
	"strings"
	"time"

	"golang.org/x/tools/go/packages"
	"golang.org/x/tools/go/ssa"
	"golang.org/x/tools/go/ssa/ssautil"
)

var verifRoot = "/verif"
var repoRoot = "/repo"

// overlay mapping: harness dir (under /verif/harness) -> package dir in the repo's module
var overlayDirs = map[string]string{
	"vrt":    "module/x/zzverif/vrt",
	"types":  "module/x/mhub2/types",
	"keeper": "module/x/mhub2/keeper",
	"mhub2":  "module/x/mhub2",
	"oracle": "module/x/oracle/keeper",
	"oraclemod": "module/x/oracle",
	"conncommand": "minter-connector/command",
	"connminter": "minter-connector/minter",
	"conncontext": "minter-connector/context",
	"connmain": "minter-connector/cmd/mhub-minter-connector",
	"conntxc": "minter-connector/tx_committer",
	"connconfig": "minter-connector/config",
	"otypes": "module/x/oracle/types",
}

func buildOverlay() (map[string][]byte, map[string]string) {
	ov := map[string][]byte{}
	real := map[string]string{}
	for sub, dst := range overlayDirs {
		files, _ := filepath.Glob(filepath.Join(verifRoot, "harness", sub, "*.go"))
		for _, f := range files {
			data, err := os.ReadFile(f)
			if err != nil {
				continue
			}
			v := filepath.Join(repoRoot, dst, filepath.Base(f))
			ov[v] = data
			real[v] = f
		}
	}
	return ov, real
}

type Loaded struct {
	prog *ssa.Program
	pkgs []*ssa.Package
	byID map[string]*ssa.Package
}

// syntheticModule creates the scratch main module through which the connector packages are loaded
// (minter-connector's own go.mod points at a directory that does not exist).
func syntheticModule() (string, error) {
	dir, err := os.MkdirTemp("", "gosym-conn-")
	if err != nil {
		return "", err
	}
	for _, f := range []string{"go.mod", "go.sum", "main.go"} {
		data, err := os.ReadFile(filepath.Join(verifRoot, "harness", "connector", f+".tmpl"))
		if err != nil {
			return "", err
		}
		if err := os.WriteFile(filepath.Join(dir, f), data, 0o644); err != nil {
			return "", err
		}
	}
	return dir, nil
}

func loadProgram(dir string, patterns []string) (*Loaded, error) {
	if dir == "synthetic" {
		d, err := syntheticModule()
		if err != nil {
			return nil, err
		}
		defer os.RemoveAll(d)
		dir = d
	}
	ov, _ := buildOverlay()
	cfg := &packages.Config{
		Mode:    packages.LoadAllSyntax,
		Dir:     dir,
		Overlay: ov,
		Env:     append(os.Environ(), "GOFLAGS=-mod=mod", "GOPROXY=off", "GOSUMDB=off", "GOTOOLCHAIN=local"),
	}
	initial, err := packages.Load(cfg, patterns...)
	if err != nil {
		return nil, err
	}
	nerr := 0
	packages.Visit(initial, nil, func(p *packages.Package) {
		for _, e := range p.Errors {
			if nerr < 20 {
				fmt.Fprintf(os.Stderr, "load error: %s: %v\n", p.PkgPath, e)
			}
			nerr++
		}
	})
	if nerr > 0 {
		return nil, fmt.Errorf("%d package load errors (the harness no longer compiles against the tree?)", nerr)
	}
	prog, pkgs := ssautil.AllPackages(initial, ssa.BuilderMode(0))
	l := &Loaded{prog: prog, pkgs: pkgs, byID: map[string]*ssa.Package{}}
	for i, p := range pkgs {
		if p != nil {
			l.byID[initial[i].PkgPath] = p
			p.Build()
		}
	}
	return l, nil
}

func (l *Loaded) findEntry(name string) *ssa.Function {
	for _, p := range l.pkgs {
		if p == nil {
			continue
		}
		if f := p.Func(name); f != nil {
			return f
		}
	}
	for _, p := range l.prog.AllPackages() { // harness support functions in dependency packages (stubs)
		if strings.HasPrefix(p.Pkg.Path(), "github.com/MinterTeam/mhub2/") {
			if f := p.Func(name); f != nil {
				return f
			}
		}
	}
	return nil
}

func main() {
	if wd, err := os.Getwd(); err == nil {
		if _, err := os.Stat(filepath.Join(wd, "checks.json")); err == nil {
			verifRoot = wd // run from a snapshot/worktree of /verif: use its harnesses and configuration
		}
	}
	if len(os.Args) < 2 {
		fmt.Println("usage: gosym run|check|selftest ...")
		os.Exit(2)
	}
	switch os.Args[1] {
	case "run":
		cmdRun(os.Args[2:])
	case "check":
		os.Exit(cmdCheck(os.Args[2:]))
	case "sites":
		l, err := loadProgram("/repo/module", []string{"./x/mhub2/keeper", "./x/mhub2", "./x/oracle/keeper", "./x/oracle"})
		if err != nil {
			fmt.Println("ERROR", err)
			os.Exit(2)
		}
		for _, s := range nondetSites(l) {
			fmt.Println(s)
		}
	default:
		fmt.Println("unknown command")
		os.Exit(2)
	}
}

func cmdRun(args []string) {
	fs := flag.NewFlagSet("run", flag.ExitOnError)
	dir := fs.String("dir", "/repo/module", "module dir")
	pkgs := fs.String("pkgs", "./x/mhub2/types", "comma-separated package patterns")
	entry := fs.String("entry", "", "harness entry function")
	workers := fs.Int("workers", 4, "workers")
	unwind := fs.Int("unwind", 12, "loop bound")
	verbose := fs.Bool("v", false, "verbose")
	timeout := fs.Int("timeout", 20000, "solver timeout ms")
	maxPaths := fs.Int("maxpaths", 20000, "max paths")
	solver := fs.String("solver", "z3", "solver")
	fs.Parse(args)
	t0 := time.Now()
	l, err := loadProgram(*dir, strings.Split(*pkgs, ","))
	if err != nil {
		fmt.Println("ERROR", err)
		os.Exit(2)
	}
	fmt.Printf("loaded in %.1fs\n", time.Since(t0).Seconds())
	fn := l.findEntry(*entry)
	if fn == nil {
		fmt.Println("ERROR entry not found:", *entry)
		os.Exit(2)
	}
	r := NewRun(l.prog, fn)
	r.unwind = *unwind
	r.verbose = *verbose
	r.timeoutMs = *timeout
	r.maxPaths = *maxPaths
	r.solverNm = *solver
	if os.Getenv("GOSYM_INITLOG") != "" {
		r.initLog = func(s string) { fmt.Println("  init-tolerated:", s) }
	}
	t1 := time.Now()
	r.Explore(*workers)
	printRun(r, time.Since(t1))
	if forkStat != nil {
		type kv struct {
			k string
			v int
		}
		var l []kv
		for k, v := range forkStat {
			l = append(l, kv{k, v})
		}
		sort.Slice(l, func(i, j int) bool { return l[i].v > l[j].v })
		for i, e := range l {
			if i < 15 {
				fmt.Printf("  forks %6d at %s\n", e.v, e.k)
			}
		}
	}
}

func printRun(r *Run, d time.Duration) {
	status, obl, reached := r.Summary()
	fmt.Printf("paths=%d %v  queries=%d solver=%.1fs unknown=%d wall=%.1fs\n", len(r.Paths), status, r.Queries, r.SolverT.Seconds(), r.Unknowns, d.Seconds())
	var ids []string
	for id := range obl {
		ids = append(ids, id)
	}
	sort.Strings(ids)
	for _, id := range ids {
		o := obl[id]
		fmt.Printf("  obligation %-40s checked=%d discharged=%d violated=%d unknown=%d %s\n", id, o.Checked, o.Discharged, o.Violated, o.Unknown, o.UnknownWhy)
	}
	for id, n := range reached {
		fmt.Printf("  reached %s on %d paths\n", id, n)
	}
	errs := map[string]int{}
	for _, p := range r.Paths {
		if p.Status == "error" || p.Status == "panic" {
			errs[p.Status+": "+p.Detail]++
		}
	}
	for e, n := range errs {
		fmt.Printf("  %dx %s\n", n, e)
	}
	nv := 0
	for _, p := range r.Paths {
		for _, v := range p.Violations {
			if nv < 5 {
				b, _ := json.Marshal(v.Model)
				fmt.Printf("  VIOLATED %s choices=%v model=%s\n", v.Obligation, v.Choices, b)
			}
			nv++
		}
	}
}
