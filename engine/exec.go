package main

import (
	"os"
	"strconv"
	"fmt"
	"go/types"
	"math/big"
	"sort"
	"strings"
	"sync"
	"time"

	"golang.org/x/tools/go/ssa"
)

type dec struct {
	Val    int
	N      int  // arity (2 = boolean branch: 1=true,0=false)
	Forced bool // only one side feasible (no alternative)
}

// Exec is the state of one path execution.
type Exec struct {
	run      *Run
	prog     *ssa.Program
	tf       *TF
	solver   *Solver
	prefix   []dec
	trace    []dec
	pcTerms  []*Term
	globals  map[*ssa.Global]*Obj
	initDone map[*ssa.Package]bool
	explicitDone map[*ssa.Function]bool
	objCount int
	opqCount int
	blobCnt  int
	steps    int
	maxSteps int
	unwind   int
	depth    int
	ranks    map[string]*rankEntry
	hashes   []*hashEntry
	inInit   int
	lastPanic string
	opqByKey map[string]*OpqStr
	digested []*Blob
	lastABI  map[string]string
	recovers []*recovered
	recCnt   int
	packs    []*abiPack
	hexCharNib map[int]*Term
	hashAx   map[[2]int]*Term
	hashCnt  int
	hexExp   map[string]*Enc
	stackNames []string

	nondets  map[string]*Term // harness-named symbolic inputs
	ndOrder  []string
	choices  map[string]int // harness-named Choose/Len decisions
	chOrder  []string
	outcome  *PathResult
	env      map[string]Value // engine-side registry (params etc.)
	tolerant int
	newAlts  [][]dec
}

type hashEntry struct {
	fn   string
	key  string
	pre  []*Term
	outs []*Term
	id   int
	concrete bool
}

type Violation struct {
	Obligation string
	Model      map[string]string
	Choices    map[string]int
	Trace      []dec
	Msg        string
	Pos        string
}

type PathResult struct {
	PanicClass string
	Status     string // ok | panic | assumed | error | infeasible
	Detail     string
	Asserts    map[string]*oblStat
	Reached    []string
	Violations []*Violation
	Steps      int
	Branches   int
	Sample     map[string]string
	Choices    map[string]int
}

type oblStat struct {
	Checked    int
	Discharged int
	Trivial    int
	Violated   int
	Unknown    int
	UnknownWhy string
}

// Run is a whole exploration (all paths of one harness entry).
type Run struct {
	prog      *ssa.Program
	entry     *ssa.Function
	mu        sync.Mutex
	work      [][]dec
	active    int
	cond      *sync.Cond
	Paths     []*PathResult
	funcs     map[string]bool
	intr      map[string]bool
	assump    map[string]bool
	maxPaths  int
	unwind    int
	maxSteps  int
	timeoutMs int
	solverNm  string
	Queries   int
	SolverT   time.Duration
	Unknowns  int
	verbose   bool
	stopped   bool
	deadline  time.Time
	smtLog    string
	initLog   func(string)
	seed      int
	branchTimeoutMs int
	stubs     map[string]*ssa.Function // environment stubs: real function name -> harness function executed instead
}

func (ex *Exec) noteFunc(fn *ssa.Function) {
	if ex.inInit > 0 {
		return
	}
	n := fn.String()
	ex.run.mu.Lock()
	ex.run.funcs[n] = true
	ex.run.mu.Unlock()
}
func (ex *Exec) noteIntrinsic(n string) {
	ex.run.mu.Lock()
	ex.run.intr[n] = true
	ex.run.mu.Unlock()
}
func (ex *Exec) noteAssumption(s string) {
	ex.run.mu.Lock()
	ex.run.assump[s] = true
	ex.run.mu.Unlock()
}

// ---------- decisions ----------

func (ex *Exec) assume(c *Term) {
	if c.IsConst() {
		if !c.B {
			panic(&PathEnd{"assumption is false"})
		}
		return
	}
	ex.pcTerms = append(ex.pcTerms, c)
	ex.solver.Assert(c)
}

func (ex *Exec) replaying() bool { return len(ex.trace) < len(ex.prefix) }

func (ex *Exec) branch(c *Term, fr *Frame, site ssa.Instruction) bool {
	return ex.branchNoSite(c)
}

// branchNoSite decides a symbolic boolean; forks when both sides are feasible.
func (ex *Exec) branchNoSite(c *Term) bool {
	if c.IsConst() {
		return c.B
	}
	if ex.inInit > 0 {
		panic(engineErr("symbolic branch during package initialisation"))
	}
	f := ex.tf
	if ex.replaying() {
		d := ex.prefix[len(ex.trace)]
		ex.trace = append(ex.trace, d)
		if !d.Forced {
			if d.Val == 1 {
				ex.assume(c)
			} else {
				ex.assume(f.Not(c))
			}
		}
		return d.Val == 1
	}
	ex.solver.QueryTimeout = ex.run.branchTimeoutMs
	defer func() { ex.solver.QueryTimeout = 0 }()
	rt := ex.solver.CheckWith(c)
	if rt == Unsat {
		ex.trace = append(ex.trace, dec{Val: 0, N: 2, Forced: true})
		return false
	}
	rf := ex.solver.CheckWith(f.Not(c))
	if rf == Unsat {
		ex.trace = append(ex.trace, dec{Val: 1, N: 2, Forced: true})
		return true
	}
	// both feasible (or unknown): take true, queue false
	if forkStat != nil {
		site := "?"
		if n := len(ex.stackNames); n > 0 {
			site = ex.stackNames[n-1]
		}
		forkMu.Lock()
		forkStat[site]++
		forkMu.Unlock()
	}
	alt := append(append([]dec{}, ex.trace...), dec{Val: 0, N: 2})
	ex.newAlts = append(ex.newAlts, alt)
	ex.trace = append(ex.trace, dec{Val: 1, N: 2})
	ex.assume(c)
	return true
}

// choose makes an n-way engine decision (no solver involved).
func (ex *Exec) choose(n int, label string) int {
	if n <= 1 {
		return 0
	}
	if ex.inInit > 0 {
		panic(engineErr("nondeterministic choice during package initialisation"))
	}
	if ex.replaying() {
		d := ex.prefix[len(ex.trace)]
		ex.trace = append(ex.trace, d)
		return d.Val
	}
	for v := 1; v < n; v++ {
		alt := append(append([]dec{}, ex.trace...), dec{Val: v, N: n})
		ex.newAlts = append(ex.newAlts, alt)
	}
	ex.trace = append(ex.trace, dec{Val: 0, N: n})
	return 0
}

func (ex *Exec) solverImplies(c *Term) bool {
	if c.IsConst() {
		return c.B
	}
	return ex.solver.CheckWith(ex.tf.Not(c)) == Unsat
}

// uniqueValue returns the only possible value of t under the path condition, or nil.
func (ex *Exec) uniqueValue(t *Term) *big.Int {
	if t.Lo != nil && t.Hi != nil && t.Lo.Cmp(t.Hi) == 0 {
		return t.Lo
	}
	s := ex.solver
	s.Push()
	defer s.Pop()
	probe := ex.tf.Var("probe!unique", SInt, nil, nil)
	s.Assert(ex.tf.Eq(probe, t))
	if s.Check() != Sat {
		return nil
	}
	m := s.Model([]*Term{probe})
	v, ok := new(big.Int).SetString(m["probe!unique"], 10)
	if !ok {
		return nil
	}
	if s.CheckWith(ex.tf.Not(ex.tf.Eq(t, ex.tf.Int(v)))) == Unsat {
		return v
	}
	return nil
}

// ---------- globals & package init ----------

func (ex *Exec) global(g *ssa.Global) *Obj {
	if o, ok := ex.globals[g]; ok {
		return o
	}
	et := g.Type().(*types.Pointer).Elem()
	o := ex.newObj(ex.zeroTolerant(et), et)
	ex.globals[g] = o
	ex.initGlobal(g)
	return o
}

func (ex *Exec) zeroTolerant(t types.Type) (v Value) {
	defer func() {
		if r := recover(); r != nil {
			if _, ok := r.(*EngineErr); ok {
				v = Opaque{Desc: "unsupported zero " + t.String()}
				return
			}
			panic(r)
		}
	}()
	return ex.zero(t)
}

func rootGlobal(v ssa.Value) *ssa.Global {
	for {
		switch x := v.(type) {
		case *ssa.Global:
			return x
		case *ssa.FieldAddr:
			v = x.X
		case *ssa.IndexAddr:
			v = x.X
		default:
			return nil
		}
	}
}

func isInitBoundary(ins ssa.Instruction, g *ssa.Global) bool {
	switch i := ins.(type) {
	case *ssa.Store:
		if rg := rootGlobal(i.Addr); rg != nil && rg != g {
			return true
		}
	case *ssa.Call:
		if callee := i.Common().StaticCallee(); callee != nil && strings.HasPrefix(callee.Name(), "init") && callee.Signature.Recv() == nil && callee.Signature.Params().Len() == 0 {
			return true
		}
	case *ssa.If, *ssa.Jump, *ssa.Return:
		return true
	}
	return false
}

// initGlobal runs only the slice of the package initialiser that defines g: the straight-line
// segment of init ending in the store(s) to g, or the explicit init() functions that assign it.
// Instructions the engine cannot execute leave an Opaque value behind (tolerant, all-concrete).
func (ex *Exec) initGlobal(g *ssa.Global) {
	pkg := g.Pkg
	init := pkg.Func("init")
	if init == nil {
		return
	}
	if init.Blocks == nil {
		pkg.Build()
	}
	ex.inInit++
	savedSteps := ex.steps
	defer func() { ex.inInit--; ex.steps = savedSteps }()
	for _, b := range init.Blocks {
		for idx, ins := range b.Instrs {
			st, ok := ins.(*ssa.Store)
			if !ok || rootGlobal(st.Addr) != g {
				continue
			}
			// segment start
			lo := idx
			for lo > 0 && !isInitBoundary(b.Instrs[lo-1], g) {
				lo--
			}
			hi := idx
			for hi+1 < len(b.Instrs) && !isInitBoundary(b.Instrs[hi+1], g) {
				if _, isCall := b.Instrs[hi+1].(*ssa.Call); isCall {
					break
				}
				hi++
			}
			// trim: stop after the last store to g in [idx..hi]
			last := idx
			for k := idx; k <= hi; k++ {
				if s2, ok := b.Instrs[k].(*ssa.Store); ok && rootGlobal(s2.Addr) == g {
					last = k
				}
			}
			fr := &Frame{fn: init, env: map[ssa.Value]Value{}}
			for k := lo; k <= last; k++ {
				in := b.Instrs[k]
				if v, ok := in.(ssa.Value); ok {
					ex.tolerantly(fr, v, func() { ex.step(fr, in) })
				} else {
					ex.tolerantly(fr, nil, func() { ex.step(fr, in) })
				}
			}
			return
		}
	}
	// assigned by explicit init() functions
	for _, b := range init.Blocks {
		for _, ins := range b.Instrs {
			c, ok := ins.(*ssa.Call)
			if !ok {
				continue
			}
			callee := c.Common().StaticCallee()
			if callee == nil || callee.Pkg != pkg || !strings.HasPrefix(callee.Name(), "init#") {
				continue
			}
			if ex.explicitDone[callee] {
				continue
			}
			stores := false
			for _, cb := range callee.Blocks {
				for _, ci := range cb.Instrs {
					if s2, ok := ci.(*ssa.Store); ok && rootGlobal(s2.Addr) == g {
						stores = true
					}
				}
			}
			if !stores {
				continue
			}
			ex.explicitDone[callee] = true
			fr := &Frame{fn: init, env: map[ssa.Value]Value{}}
			ex.tolerantly(fr, nil, func() { ex.call(callee, nil, 0, nil, nil) })
		}
	}
}

func (ex *Exec) tolerantly(fr *Frame, v ssa.Value, f func()) {
	defer func() {
		if r := recover(); r != nil {
			switch e := r.(type) {
			case *EngineErr:
				if ex.run.verbose && ex.run.initLog != nil {
					ex.run.initLog(fr.fn.String() + ": " + e.Msg + " @ " + strings.Join(e.Stack, " < "))
				}
				if v != nil {
					fr.env[v] = Opaque{Desc: "init: " + e.Msg}
				}
			case *GoPanic:
				if v != nil {
					fr.env[v] = Opaque{Desc: "init panic: " + e.Msg}
				}
			default:
				// internal type assertion failures on Opaque operands etc.
				if _, isPE := r.(*PathEnd); isPE {
					panic(r)
				}
				if v != nil {
					fr.env[v] = Opaque{Desc: fmt.Sprint("init: ", r)}
				}
			}
		}
	}()
	f()
}

// ---------- exploration ----------

func NewRun(prog *ssa.Program, entry *ssa.Function) *Run {
	r := &Run{prog: prog, entry: entry, funcs: map[string]bool{}, intr: map[string]bool{}, assump: map[string]bool{},
		maxPaths: 20000, unwind: 64, branchTimeoutMs: 4000, maxSteps: 5_000_000, timeoutMs: 20000, solverNm: "z3"}
	r.cond = sync.NewCond(&r.mu)
	return r
}

func (r *Run) Explore(workers int) {
	r.work = [][]dec{nil}
	var wg sync.WaitGroup
	for w := 0; w < workers; w++ {
		wg.Add(1)
		go func(id int) {
			defer wg.Done()
			r.worker(id)
		}(w)
	}
	wg.Wait()
}

func (r *Run) worker(id int) {
	solver, err := NewSolver(r.solverNm, r.timeoutMs)
	if err != nil {
		panic(err)
	}
	solver.seed = r.seed
	if err := solver.WithFallback(incTimeoutMs); err != nil {
		panic(err)
	}
	if r.smtLog != "" {
		// only the first worker logs
	}
	defer func() {
		r.mu.Lock()
		r.Queries += solver.Queries
		r.SolverT += solver.Time
		r.Unknowns += solver.Unknown
		r.mu.Unlock()
		solver.Close()
	}()
	tf := NewTF()
	for {
		r.mu.Lock()
		for len(r.work) == 0 && r.active > 0 {
			r.cond.Wait()
		}
		if len(r.work) == 0 || r.stopped {
			r.mu.Unlock()
			r.cond.Broadcast()
			return
		}
		prefix := r.work[len(r.work)-1]
		r.work = r.work[:len(r.work)-1]
		r.active++
		npaths := len(r.Paths)
		r.mu.Unlock()

		var res *PathResult
		var alts [][]dec
		if npaths >= r.maxPaths || (!r.deadline.IsZero() && time.Now().After(r.deadline)) {
			res = &PathResult{Status: "error", Detail: "path budget exceeded (unexplored prefix)"}
		} else {
			if tf.next > 2_000_000 {
				tf = NewTF()
			}
			res, alts = r.runPath(prefix, tf, solver)
		}
		r.mu.Lock()
		r.Paths = append(r.Paths, res)
		r.work = append(r.work, alts...)
		r.active--
		if r.verbose && len(r.Paths)%50 == 0 {
			fmt.Printf("  .. %d paths, %d queued\n", len(r.Paths), len(r.work))
		}
		r.mu.Unlock()
		r.cond.Broadcast()
	}
}

func (r *Run) runPath(prefix []dec, tf *TF, solver *Solver) (res *PathResult, alts [][]dec) {
	solver.Reset()
	ex := &Exec{run: r, prog: r.prog, tf: tf, solver: solver, prefix: prefix,
		globals: map[*ssa.Global]*Obj{}, initDone: map[*ssa.Package]bool{}, explicitDone: map[*ssa.Function]bool{},
		maxSteps: r.maxSteps, unwind: r.unwind, ranks: map[string]*rankEntry{},
		nondets: map[string]*Term{}, choices: map[string]int{}, env: map[string]Value{}}
	tf.vars = map[string]*Term{}
	res = &PathResult{Asserts: map[string]*oblStat{}}
	ex.outcome = res
	defer func() {
		res.Steps = ex.steps
		res.Branches = len(ex.trace)
		res.Choices = ex.choices
		alts = ex.newAlts
		if rec := recover(); rec != nil {
			switch e := rec.(type) {
			case *EngineErr:
				res.Status, res.Detail = "error", e.Msg
				if len(e.Stack) > 0 {
					res.Detail += " @ " + strings.Join(e.Stack, " < ")
				}
			case *GoPanic:
				res.Status, res.Detail = "panic", e.Msg+" @ "+e.Stack
				res.PanicClass = panicClass(e)
			case *PathEnd:
				res.Status, res.Detail = "assumed", e.Reason
			default:
				res.Status, res.Detail = "error", fmt.Sprintf("internal engine panic: %v", rec)
				if r.verbose {
					panic(rec)
				}
			}
		}
		if res.Status == "ok" || res.Status == "panic" {
			// a witness of this path (values of the named inputs)
			res.Sample = ex.modelNow()
		}
	}()
	ex.call(r.entry, nil, 0, nil, nil)
	res.Status = "ok"
	return
}

func (ex *Exec) modelNow() map[string]string {
	if len(ex.ndOrder) == 0 {
		return map[string]string{}
	}
	if ex.solver.Check() != Sat {
		return nil
	}
	var vars []*Term
	for _, n := range ex.ndOrder {
		vars = append(vars, ex.nondets[n])
	}
	return ex.solver.Model(vars)
}

// ---------- obligations ----------

func (ex *Exec) stat(id string) *oblStat {
	s := ex.outcome.Asserts[id]
	if s == nil {
		s = &oblStat{}
		ex.outcome.Asserts[id] = s
	}
	return s
}

func (ex *Exec) assertObl(id string, c *Term, pos string, independent bool) {
	if ex.replaying() {
		// already checked by the parent path before the fork point; keep the same path condition
		if independent {
			return
		}
		if c.IsConst() && !c.B {
			panic(&PathEnd{"assertion " + id + " is false on this path"})
		}
		ex.assume(c)
		return
	}
	st := ex.stat(id)
	st.Checked++
	if c.IsConst() && c.B {
		st.Trivial++
		st.Discharged++
		return
	}
	f := ex.tf
	s := ex.solver
	s.Push()
	s.Assert(f.Not(c))
	r := s.Check()
	switch r {
	case Unsat:
		st.Discharged++
		s.Pop()
	case Sat:
		st.Violated++
		var vars []*Term
		for _, n := range ex.ndOrder {
			vars = append(vars, ex.nondets[n])
		}
		m := s.Model(vars)
		s.Pop()
		ch := map[string]int{}
		for k, v := range ex.choices {
			ch[k] = v
		}
		ex.outcome.Violations = append(ex.outcome.Violations, &Violation{Obligation: id, Model: m, Choices: ch,
			Trace: append([]dec{}, ex.trace...), Pos: pos})
	default:
		st.Unknown++
		st.UnknownWhy = "solver: unknown/timeout " + s.lastErr
		s.Pop()
	}
	// continue under the assumption that the assertion holds
	if r != Unsat && !independent {
		if c.IsConst() && !c.B {
			// fails on the whole path: later assertions of this path would only repeat the failure
			panic(&PathEnd{"assertion " + id + " is false on this path"})
		}
		if s.CheckWith(c) == Unsat {
			panic(&PathEnd{"assertion " + id + " fails on the whole path"})
		}
		ex.assume(c)
	}
}

// ---------- summary helpers ----------

func (r *Run) Summary() (status map[string]int, obl map[string]*oblStat, reached map[string]int) {
	status = map[string]int{}
	obl = map[string]*oblStat{}
	reached = map[string]int{}
	for _, p := range r.Paths {
		status[p.Status]++
		for id, s := range p.Asserts {
			o := obl[id]
			if o == nil {
				o = &oblStat{}
				obl[id] = o
			}
			o.Checked += s.Checked
			o.Discharged += s.Discharged
			o.Trivial += s.Trivial
			o.Violated += s.Violated
			o.Unknown += s.Unknown
			if s.UnknownWhy != "" {
				o.UnknownWhy = s.UnknownWhy
			}
		}
		for _, id := range p.Reached {
			reached[id]++
		}
	}
	return
}

func sortedKeys(m map[string]bool) []string {
	var ks []string
	for k := range m {
		ks = append(ks, k)
	}
	sort.Strings(ks)
	return ks
}

func traceString(t []dec) string {
	var sb strings.Builder
	for _, d := range t {
		if d.N == 2 {
			if d.Forced {
				sb.WriteString([]string{"f", "t"}[d.Val])
			} else {
				sb.WriteString([]string{"F", "T"}[d.Val])
			}
		} else {
			fmt.Fprintf(&sb, "[%d/%d]", d.Val, d.N)
		}
	}
	return sb.String()
}

func itoa(i int) string { return fmt.Sprint(i) }

var incTimeoutMs = func() int {
	if v := os.Getenv("GOSYM_INC_MS"); v != "" {
		n, _ := strconv.Atoi(v)
		return n
	}
	return 1500
}()

var forkStat = func() map[string]int {
	if os.Getenv("GOSYM_FORKSTAT") != "" {
		return map[string]int{}
	}
	return nil
}()
var forkMu sync.Mutex

// panicClass: a stable label for an escaped panic: message without digits + innermost function of the repository.
func panicClass(p *GoPanic) string {
	msg := p.Msg
	if strings.HasPrefix(msg, "panic(") && strings.HasSuffix(msg, ")") {
		t := strings.TrimSuffix(strings.TrimPrefix(msg, "panic("), ")")
		if i := strings.LastIndex(t, "/"); i >= 0 {
			t = t[i+1:]
		}
		msg = "panic(" + strings.TrimPrefix(t, "*") + ")"
	}
	var sb strings.Builder
	for _, r := range msg {
		if r >= '0' && r <= '9' {
			continue
		}
		sb.WriteRune(r)
		if sb.Len() > 60 {
			break
		}
	}
	site := ""
	for _, fn := range strings.Split(p.Stack, " < ") {
		if strings.Contains(fn, "MinterTeam/mhub2/") && !strings.Contains(fn, "ZZ") && !strings.Contains(fn, ".zz") && !strings.Contains(fn, "zzverif") {
			site = fn
			if i := strings.LastIndex(site, "/"); i >= 0 {
				site = site[i+1:]
			}
			break
		}
	}
	return strings.TrimSpace(sb.String()) + " @ " + site
}
