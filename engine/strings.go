package main

import (
	"math/big"
	"os"
	"fmt"
	"strings"
)

var bech32HRP = map[string]string{"acc": "cosmos", "val": "cosmosvaloper", "cons": "cosmosvalcons"}

func (ex *Exec) newOpq(desc string, args []Value) *OpqStr {
	var sb strings.Builder
	sb.WriteString(desc + "|")
	key := ""
	okAll := true
	for _, a := range args {
		if !ex.keyOf(&sb, a, 0) {
			okAll = false
			break
		}
	}
	if okAll {
		key = sb.String()
		if o, ok := ex.opqByKey[key]; ok {
			return o
		}
	}
	ex.opqCount++
	o := &OpqStr{ID: ex.opqCount, Desc: desc, Args: args, Key: key}
	if key != "" {
		if ex.opqByKey == nil {
			ex.opqByKey = map[string]*OpqStr{}
		}
		ex.opqByKey[key] = o
	}
	return o
}

func encLen(e *Enc) int {
	switch e.Kind {
	case "hex":
		return 42
	case "acc", "val", "cons":
		n := len(e.Data)
		return len(bech32HRP[e.Kind]) + 1 + (n*8+4)/5 + 6
	}
	return -1
}

func (ex *Exec) strLen(s Str) *Term {
	if s.Enc != nil {
		if n := encLen(s.Enc); n >= 0 {
			return ex.tf.I64(int64(n))
		}
		panic(engineErr("length of an abstract " + s.Enc.Kind + " string"))
	}
	if s.Opq != nil {
		panic(engineErr("length of an opaque string (" + s.Opq.Desc + ")"))
	}
	return ex.tf.I64(int64(len(s.B)))
}

// strBytes returns explicit bytes, expanding abstract encodings where that is expressible.
func (ex *Exec) strBytes(s Str) []*Term {
	if s.Opq != nil {
		panic(engineErr("bytes of an opaque string (" + s.Opq.Desc + ")"))
	}
	if s.Enc == nil {
		return s.B
	}
	f := ex.tf
	switch s.Enc.Kind {
	case "hex":
		// EIP-55: digits fixed by the address; letter case given by an uninterpreted per-address bit
		out := []*Term{f.I64('0'), f.I64('x')}
		key := termsKey(s.Enc.Data)
		for i, b := range s.Enc.Data {
			for half := 0; half < 2; half++ {
				var nib *Term
				if half == 0 {
					nib = f.Div(b, f.I64(16))
				} else {
					nib = f.Mod(b, f.I64(16))
				}
				if nib.IsConst() && nib.C.Int64() < 10 {
					out = append(out, f.I64('0'+nib.C.Int64()))
					continue
				}
				up := f.Var(fmt.Sprintf("eip55case!%s!%d", key, 2*i+half), SBool, nil, nil)
				letter := f.Ite(up, f.Add(nib, f.I64('A'-10)), f.Add(nib, f.I64('a'-10)))
				ch := f.Ite(f.Lt(nib, f.I64(10)), f.Add(nib, f.I64('0')), letter)
				if ex.hexCharNib == nil {
					ex.hexCharNib = map[int]*Term{}
				}
				ex.hexCharNib[ch.ID] = nib // lets hexDecode see through decode(encode(x))
				out = append(out, ch)
			}
		}
		ex.noteAssumption("EIP-55 letter case of Address.Hex() is an uninterpreted function of the address")
		if ex.hexExp == nil {
			ex.hexExp = map[string]*Enc{}
		}
		ex.hexExp[termsKey(out)] = s.Enc
		return out
	}
	panic(engineErr("bytes of an abstract " + s.Enc.Kind + " string are not expressible"))
}

func termsKey(ts []*Term) string {
	var sb strings.Builder
	for _, t := range ts {
		fmt.Fprintf(&sb, "%d.", t.ID)
	}
	return sb.String()
}

func (ex *Exec) bytesEq(a, b []*Term) *Term {
	f := ex.tf
	if len(a) != len(b) {
		return f.False
	}
	return ex.cmpGroups(a, b, func(x, y *Term) *Term { return f.Eq(x, y) }, true)
}

// cmpGroups: equality over byte sequences with regrouping of byteof-runs into integer comparisons.
func (ex *Exec) cmpGroups(a, b []*Term, eq func(x, y *Term) *Term, _ bool) *Term {
	f := ex.tf
	var cs []*Term
	i := 0
	for i < len(a) {
		if pe := ex.hashPairAt(a, b, i); pe != nil {
			cs = append(cs, pe)
			i += 32
			continue
		}
		if ra, rb, n := byteRunAt(a, i), byteRunAt(b, i), 0; ra != nil && rb != nil {
			n = ra.n
			if rb.n == n && ra.start == rb.start && ra.width == rb.width && n > 1 {
				ta, tb := ex.runValue(ra), ex.runValue(rb)
				cs = append(cs, f.Eq(ta, tb))
				i += n
				continue
			}
		}
		c := f.Eq(a[i], b[i])
		if c.IsConst() && !c.B {
			return f.False
		}
		cs = append(cs, c)
		i++
	}
	return f.And(cs...)
}

type run struct {
	t     *Term
	start int // first byte index within the encoding
	n     int // number of bytes in the run
	width int // total width of the encoding
}

// byteRunAt finds a maximal run of consecutive byteof(t,k,w) starting at position i that reaches the last byte (k+n == w).
func byteRunAt(bs []*Term, i int) *run {
	b := bs[i]
	if b.Op != "byteof" {
		return nil
	}
	r := &run{t: b.Args[0], start: b.N2, width: b.N}
	k := b.N2
	j := i
	for j < len(bs) && bs[j].Op == "byteof" && bs[j].Args[0] == r.t && bs[j].N == r.width && bs[j].N2 == k {
		j++
		k++
	}
	r.n = j - i
	if r.start+r.n != r.width {
		return nil
	}
	return r
}

func (ex *Exec) runValue(r *run) *Term {
	f := ex.tf
	t := r.t
	if !nonneg(t) {
		t = f.Mod(t, f.Int(pow256(r.width)))
	}
	if r.start == 0 {
		if t.Hi != nil && t.Hi.Cmp(pow256(r.width)) < 0 {
			return t
		}
		return f.Mod(t, f.Int(pow256(r.width)))
	}
	return f.Mod(t, f.Int(pow256(r.n)))
}

// hashAt: is bs[i:i+32] exactly the digest of a modelled hash?
func (ex *Exec) hashAt(bs []*Term, i int) *hashEntry {
	if i+32 > len(bs) || len(ex.hashes) == 0 {
		return nil
	}
	for _, h := range ex.hashes {
		if len(h.outs) != 32 || h.outs[0] != bs[i] {
			continue
		}
		ok := true
		for k := 0; k < 32; k++ {
			if h.outs[k] != bs[i+k] {
				ok = false
				break
			}
		}
		if ok {
			return h
		}
	}
	return nil
}

// hashPairAt: when two digests of the same hash function face each other, instantiate injectivity for the
// pair (digests equal iff pre-images equal) and return the pre-image equality.
func (ex *Exec) hashPairAt(a, b []*Term, i int) *Term {
	ha := ex.hashAt(a, i)
	if ha == nil {
		return nil
	}
	hb := ex.hashAt(b, i)
	if hb == nil || ha.fn != hb.fn {
		return nil
	}
	if ha == hb {
		return ex.tf.True
	}
	k := [2]int{ha.id, hb.id}
	if k[0] > k[1] {
		k[0], k[1] = k[1], k[0]
	}
	if ex.hashAx == nil {
		ex.hashAx = map[[2]int]*Term{}
	}
	if pe, ok := ex.hashAx[k]; ok {
		return pe
	}
	f := ex.tf
	ex.hashAx[k] = f.False // guard against recursion through nested digests
	pe := ex.bytesEq(ha.pre, hb.pre)
	ex.hashAx[k] = pe
	var outEq []*Term
	for j := 0; j < 32; j++ {
		outEq = append(outEq, f.Eq(ha.outs[j], hb.outs[j]))
	}
	ex.assume(f.Eq(f.And(outEq...), pe))
	return pe
}

// bytesLess: lexicographic a < b (or <= when orEq).
func (ex *Exec) bytesLess(a, b []*Term, orEq bool) *Term {
	f := ex.tf
	// process from the end: less(i) = a[i]<b[i] or (a[i]==b[i] and less(i+1))
	type seg struct {
		lt, eq *Term
	}
	var segs []seg
	i := 0
	n := len(a)
	if len(b) < n {
		n = len(b)
	}
	for i < n {
		ex.hashPairAt(a[:n], b[:n], i) // instantiate injectivity when digests are ordered against each other
		ra, rb := byteRunAt(a[:n], i), byteRunAt(b[:n], i)
		if ra != nil && rb != nil && ra.n == rb.n && ra.start == rb.start && ra.width == rb.width && ra.n > 1 {
			ta, tb := ex.runValue(ra), ex.runValue(rb)
			segs = append(segs, seg{f.Lt(ta, tb), f.Eq(ta, tb)})
			i += ra.n
			continue
		}
		segs = append(segs, seg{f.Lt(a[i], b[i]), f.Eq(a[i], b[i])})
		i++
	}
	// tail: all common bytes equal
	var tail *Term
	if len(a) < len(b) {
		tail = f.True
	} else if len(a) == len(b) {
		tail = f.Bool(orEq)
	} else {
		tail = f.False
	}
	res := tail
	for k := len(segs) - 1; k >= 0; k-- {
		res = f.Or(segs[k].lt, f.And(segs[k].eq, res))
	}
	return res
}

// bytesCompare returns an Int term in {-1,0,1}.
func (ex *Exec) bytesCompare(a, b []*Term) *Term {
	f := ex.tf
	if len(a) == 42 && len(b) == 42 && ex.hexExp != nil && !hexOrderPrecise {
		if ea, ok := ex.hexExp[termsKey(a)]; ok {
			if eb, ok := ex.hexExp[termsKey(b)]; ok {
				lt := ex.bechLess(ea, eb, false)
				eq := ex.bytesEq(ea.Data, eb.Data)
				return f.Ite(lt, f.I64(-1), f.Ite(eq, f.I64(0), f.I64(1)))
			}
		}
	}
	lt := ex.bytesLess(a, b, false)
	if lt.IsConst() && lt.B {
		return f.I64(-1)
	}
	eq := ex.bytesEq(a, b)
	return f.Ite(lt, f.I64(-1), f.Ite(eq, f.I64(0), f.I64(1)))
}

func (ex *Exec) strEq(a, b Str) *Term {
	f := ex.tf
	if a.Opq != nil || b.Opq != nil {
		if a.Opq != nil && b.Opq != nil {
			if a.Opq.ID == b.Opq.ID {
				return f.True
			}
			if a.Opq.Desc == b.Opq.Desc && len(a.Opq.Args) == 1 && len(b.Opq.Args) == 1 {
				switch a.Opq.Desc {
				case "fmt:%x", "fmt:%X", "fmt:%d", "fmt:%s", "fmt:%v":
					// a single-verb format is an injective text function of its argument
					if e, ok := ex.tryDeepEq(a.Opq.Args[0], b.Opq.Args[0]); ok {
						return e
					}
				}
			}
			if a.Opq.Desc == b.Opq.Desc && len(a.Opq.Args) == len(b.Opq.Args) {
				// same deterministic text function: equal arguments give equal text
				all := f.True
				okAll := true
				for i := range a.Opq.Args {
					e, ok := ex.tryValEq(a.Opq.Args[i], b.Opq.Args[i])
					if !ok {
						okAll = false
						break
					}
					all = f.And(all, e)
				}
				if okAll && all.IsConst() && all.B {
					return f.True
				}
			}
		}
		panic(engineErr("comparison of opaque strings"))
	}
	if a.Enc != nil && b.Enc != nil {
		if a.Enc.Kind != b.Enc.Kind {
			if encLen(a.Enc) != encLen(b.Enc) {
				return f.False
			}
			return f.False // different prefixes / alphabets
		}
		return ex.bytesEq(a.Enc.Data, b.Enc.Data)
	}
	if a.Enc != nil || b.Enc != nil {
		e, o := a, b
		if e.Enc == nil {
			e, o = b, a
		}
		if len(o.B) != encLen(e.Enc) {
			return f.False
		}
		if e.Enc.Kind == "hex" {
			if cs, ok := concreteString(o); ok && len(cs) == 42 && cs[:2] == "0x" {
				digitsOnly := true
				for _, c := range cs[2:] {
					if c < '0' || c > '9' {
						digitsOnly = false
					}
				}
				if digitsOnly { // no letters: the checksum casing plays no role
					var ds []*Term
					for i := 0; i < 20; i++ {
						ds = append(ds, f.I64(int64((cs[2+2*i]-'0')*16+(cs[3+2*i]-'0'))))
					}
					return ex.bytesEq(e.Enc.Data, ds)
				}
			}
			return ex.bytesEq(ex.strBytes(e), o.B)
		}
		if cs, ok := concreteString(o); ok {
			data, kind, ok2 := decodeBech32Known(cs)
			if !ok2 || kind != e.Enc.Kind || len(data) != len(e.Enc.Data) {
				return f.False
			}
			var ds []*Term
			for _, d := range data {
				ds = append(ds, f.I64(int64(d)))
			}
			return ex.bytesEq(e.Enc.Data, ds)
		}
		panic(engineErr("comparison of a bech32 string with a symbolic string"))
	}
	return ex.bytesEq(a.B, b.B)
}

func (ex *Exec) tryValEq(a, b Value) (t *Term, ok bool) {
	defer func() {
		if r := recover(); r != nil {
			if _, isE := r.(*EngineErr); isE {
				ok = false
				return
			}
			panic(r)
		}
	}()
	return ex.valEq(a, b), true
}

// hexOrderPrecise: compare two EIP-55 address strings character by character (letter case from the keccak model)
// instead of abstracting their order to an arbitrary total order.
var hexOrderPrecise = os.Getenv("GOSYM_HEX_RANK") == ""

func (ex *Exec) strLess(a, b Str, orEq bool) *Term {
	if a.Enc != nil && b.Enc != nil && a.Enc.Kind == "hex" && b.Enc.Kind == "hex" && !hexOrderPrecise {
		// order of two checksummed addresses: abstracted to an arbitrary strict total order (rank) over the address
		return ex.bechLess(a.Enc, b.Enc, orEq)
	}
	if (a.Enc != nil && a.Enc.Kind != "hex") || (b.Enc != nil && b.Enc.Kind != "hex") {
		// bech32 text order: an uninterpreted strict total order consistent with equality
		if a.Enc != nil && b.Enc != nil && a.Enc.Kind == b.Enc.Kind {
			return ex.bechLess(a.Enc, b.Enc, orEq)
		}
		panic(engineErr("ordering of abstract strings"))
	}
	return ex.bytesLess(ex.strBytes(a), ex.strBytes(b), orEq)
}

// bechLess orders two bech32 strings of the same kind by an uninterpreted injective rank of the payload.
func (ex *Exec) bechLess(a, b *Enc, orEq bool) *Term {
	f := ex.tf
	ra := ex.bechRank(a)
	rb := ex.bechRank(b)
	if orEq {
		return f.Le(ra, rb)
	}
	return f.Lt(ra, rb)
}

func (ex *Exec) bechRank(e *Enc) *Term {
	f := ex.tf
	key := e.Kind + "!" + termsKey(e.Data)
	if r, ok := ex.ranks[key]; ok {
		return r.rank
	}
	r := f.Var("bechrank!"+key, SInt, nil, nil)
	if c, ok := bechConcreteRank(e.Data); ok {
		// concrete 20-byte payload: the rank is the real text of the data part (the human-readable prefix is the same
		// for one kind and the checksum follows the data part, so it never decides between different payloads)
		r = f.Int(c)
	}
	// injectivity against the ranks created so far
	for _, o := range ex.ranks {
		if o.kind != e.Kind || len(o.data) != len(e.Data) {
			continue
		}
		ex.assume(f.Eq(f.Eq(r, o.rank), ex.bytesEq(e.Data, o.data)))
	}
	ex.ranks[key] = &rankEntry{kind: e.Kind, data: e.Data, rank: r}
	ex.noteAssumption("lexicographic order of two bech32 / two EIP-55 hex address strings is abstracted to an arbitrary strict total order over the address bytes (over-approximation)")
	return r
}

// bechConcreteRank: for a concrete 20-byte payload, the bech32 characters of the data part read as a base-256 number
// (the order of these numbers is the lexicographic order of the address strings of one kind).
func bechConcreteRank(data []*Term) (*big.Int, bool) {
	if len(data) != 20 {
		return nil, false
	}
	acc, bits := 0, 0
	r := new(big.Int)
	push := func(g int) {
		r.Lsh(r, 8)
		r.Add(r, big.NewInt(int64(bech32Charset[g])))
	}
	for _, t := range data {
		if !t.IsConst() || !t.C.IsInt64() || t.C.Int64() < 0 || t.C.Int64() > 255 {
			return nil, false
		}
		acc = acc<<8 | int(t.C.Int64())
		bits += 8
		for bits >= 5 {
			bits -= 5
			push((acc >> uint(bits)) & 31)
		}
		acc &= (1 << uint(bits)) - 1
	}
	if bits > 0 {
		push((acc << uint(5-bits)) & 31)
	}
	return r, true
}

type rankEntry struct {
	kind string
	data []*Term
	rank *Term
}

func (ex *Exec) strConcat(a, b Str) Str {
	if a.Opq != nil || b.Opq != nil || (a.Enc != nil && a.Enc.Kind != "hex") || (b.Enc != nil && b.Enc.Kind != "hex") {
		if len(a.B) == 0 && a.Enc == nil && a.Opq == nil {
			return b
		}
		if len(b.B) == 0 && b.Enc == nil && b.Opq == nil {
			return a
		}
		return Str{Opq: ex.newOpq("concat", []Value{a, b})}
	}
	x, y := ex.strBytes(a), ex.strBytes(b)
	out := make([]*Term, 0, len(x)+len(y))
	out = append(out, x...)
	out = append(out, y...)
	return Str{B: out}
}

// ---- bech32 (decode only, for concrete literals) ----

const bech32Charset = "qpzry9x8gf2tvdw0s3jn54khce6mua7l"

func bech32Polymod(values []int) int {
	gen := []int{0x3b6a57b2, 0x26508e6d, 0x1ea119fa, 0x3d4233dd, 0x2a1462b3}
	chk := 1
	for _, v := range values {
		b := chk >> 25
		chk = (chk&0x1ffffff)<<5 ^ v
		for i := 0; i < 5; i++ {
			if (b>>uint(i))&1 == 1 {
				chk ^= gen[i]
			}
		}
	}
	return chk
}

func decodeBech32(s string) (hrp string, data []byte, ok bool) {
	if strings.ToLower(s) != s && strings.ToUpper(s) != s {
		return "", nil, false
	}
	s = strings.ToLower(s)
	pos := strings.LastIndexByte(s, '1')
	if pos < 1 || pos+7 > len(s) {
		return "", nil, false
	}
	hrp = s[:pos]
	var vals []int
	for _, c := range s[pos+1:] {
		d := strings.IndexRune(bech32Charset, c)
		if d < 0 {
			return "", nil, false
		}
		vals = append(vals, d)
	}
	var exp []int
	for _, c := range hrp {
		exp = append(exp, int(c)>>5)
	}
	exp = append(exp, 0)
	for _, c := range hrp {
		exp = append(exp, int(c)&31)
	}
	if bech32Polymod(append(exp, vals...)) != 1 {
		return "", nil, false
	}
	vals = vals[:len(vals)-6]
	// convert 5 -> 8 bits
	acc, bits := 0, 0
	for _, v := range vals {
		acc = acc<<5 | v
		bits += 5
		for bits >= 8 {
			bits -= 8
			data = append(data, byte(acc>>uint(bits)))
			acc &= (1 << uint(bits)) - 1
		}
	}
	if bits >= 5 || acc != 0 {
		return "", nil, false
	}
	return hrp, data, true
}

func decodeBech32Known(s string) ([]byte, string, bool) {
	hrp, data, ok := decodeBech32(s)
	if !ok {
		return nil, "", false
	}
	for k, h := range bech32HRP {
		if h == hrp {
			return data, k, true
		}
	}
	return nil, "", false
}
