package main

import (
	"fmt"
	"math/big"
	"sort"
	"strings"
)

// Sort of an SMT term.
type Sort int

const (
	SInt Sort = iota
	SBool
	SReal
)

// Term is a hash-consed SMT term (per TF).
type Term struct {
	Op   string // const var + - * div mod neg ite = < <= and or not byteof bitlen uf toreal /
	Sort Sort
	C    *big.Int // Int const
	B    bool     // Bool const
	R    *big.Rat // Real const
	Name string   // var / uf name
	N    int      // byteof: total width n ; index i in N2
	N2   int
	Args []*Term
	Lo   *big.Int // interval (Int only); nil = unbounded
	Hi   *big.Int
	ID   int
}

func (t *Term) IsConst() bool { return t.Op == "const" }

// TF is a term factory with hash-consing.
type TF struct {
	tab   map[string]*Term
	next  int
	True  *Term
	False *Term
	vars  map[string]*Term
	varCache   map[int][]*Term
	splitDepth int
	divLike    bool
}

func NewTF() *TF {
	f := &TF{tab: map[string]*Term{}, vars: map[string]*Term{}}
	f.True = f.mk(&Term{Op: "const", Sort: SBool, B: true})
	f.False = f.mk(&Term{Op: "const", Sort: SBool, B: false})
	return f
}

func (f *TF) key(t *Term) string {
	var sb strings.Builder
	sb.WriteString(t.Op)
	sb.WriteByte('|')
	switch t.Op {
	case "const":
		switch t.Sort {
		case SInt:
			sb.WriteString(t.C.String())
		case SBool:
			if t.B {
				sb.WriteString("T")
			} else {
				sb.WriteString("F")
			}
		case SReal:
			sb.WriteString("r" + t.R.String())
		}
	case "var", "uf":
		sb.WriteString(t.Name)
		fmt.Fprintf(&sb, ":%d", t.Sort)
		if t.Op == "var" {
			if t.Lo != nil {
				sb.WriteString(":lo" + t.Lo.String())
			}
			if t.Hi != nil {
				sb.WriteString(":hi" + t.Hi.String())
			}
		}
	case "byteof":
		fmt.Fprintf(&sb, "%d,%d", t.N, t.N2)
	}
	for _, a := range t.Args {
		fmt.Fprintf(&sb, " %d", a.ID)
	}
	return sb.String()
}

func (f *TF) mk(t *Term) *Term {
	k := f.key(t)
	if o, ok := f.tab[k]; ok {
		return o
	}
	f.next++
	t.ID = f.next
	f.tab[k] = t
	return t
}

var (
	big0   = big.NewInt(0)
	big1   = big.NewInt(1)
	big256 = big.NewInt(256)
)

func pow2(n int) *big.Int { return new(big.Int).Lsh(big1, uint(n)) }
func pow256(n int) *big.Int {
	return new(big.Int).Lsh(big1, uint(8*n))
}

func (f *TF) Int(c *big.Int) *Term {
	c = new(big.Int).Set(c)
	return f.mk(&Term{Op: "const", Sort: SInt, C: c, Lo: c, Hi: c})
}
func (f *TF) I64(c int64) *Term { return f.Int(big.NewInt(c)) }
func (f *TF) Bool(b bool) *Term {
	if b {
		return f.True
	}
	return f.False
}
func (f *TF) Real(r *big.Rat) *Term {
	return f.mk(&Term{Op: "const", Sort: SReal, R: new(big.Rat).Set(r)})
}

// Var declares (or returns) a variable. lo/hi may be nil.
func (f *TF) Var(name string, s Sort, lo, hi *big.Int) *Term {
	if v, ok := f.vars[name]; ok {
		return v
	}
	t := f.mk(&Term{Op: "var", Sort: s, Name: name, Lo: lo, Hi: hi})
	f.vars[name] = t
	return t
}

func addB(a, b *big.Int) *big.Int {
	if a == nil || b == nil {
		return nil
	}
	return new(big.Int).Add(a, b)
}
func subB(a, b *big.Int) *big.Int {
	if a == nil || b == nil {
		return nil
	}
	return new(big.Int).Sub(a, b)
}

func (f *TF) Add(a, b *Term) *Term {
	if a.Sort == SReal || b.Sort == SReal {
		return f.realOp("+", a, b)
	}
	if a.IsConst() && b.IsConst() {
		return f.Int(new(big.Int).Add(a.C, b.C))
	}
	if a.IsConst() && a.C.Sign() == 0 {
		return b
	}
	if b.IsConst() && b.C.Sign() == 0 {
		return a
	}
	if a.IsConst() { // canonical: const on the right
		a, b = b, a
	}
	// (x + c1) + c2
	if b.IsConst() && a.Op == "+" && a.Args[1].IsConst() {
		return f.Add(a.Args[0], f.Int(new(big.Int).Add(a.Args[1].C, b.C)))
	}
	if b.IsConst() && a.Op == "-" && a.Args[1].IsConst() {
		return f.Add(a.Args[0], f.Int(new(big.Int).Sub(b.C, a.Args[1].C)))
	}
	return f.mk(&Term{Op: "+", Sort: SInt, Args: []*Term{a, b}, Lo: addB(a.Lo, b.Lo), Hi: addB(a.Hi, b.Hi)})
}

func (f *TF) Sub(a, b *Term) *Term {
	if a.Sort == SReal || b.Sort == SReal {
		return f.realOp("-", a, b)
	}
	if a.IsConst() && b.IsConst() {
		return f.Int(new(big.Int).Sub(a.C, b.C))
	}
	if b.IsConst() {
		return f.Add(a, f.Int(new(big.Int).Neg(b.C)))
	}
	if a == b {
		return f.I64(0)
	}
	// (x + c) - x
	if a.Op == "+" && a.Args[0] == b {
		return a.Args[1]
	}
	return f.mk(&Term{Op: "-", Sort: SInt, Args: []*Term{a, b}, Lo: subB(a.Lo, b.Hi), Hi: subB(a.Hi, b.Lo)})
}

func (f *TF) Neg(a *Term) *Term { return f.Sub(f.I64(0), a) }

func minmax4(xs ...*big.Int) (*big.Int, *big.Int) {
	lo, hi := xs[0], xs[0]
	for _, x := range xs[1:] {
		if x.Cmp(lo) < 0 {
			lo = x
		}
		if x.Cmp(hi) > 0 {
			hi = x
		}
	}
	return lo, hi
}

func (f *TF) Mul(a, b *Term) *Term {
	if a.Sort == SReal || b.Sort == SReal {
		return f.realOp("*", a, b)
	}
	if a.IsConst() && b.IsConst() {
		return f.Int(new(big.Int).Mul(a.C, b.C))
	}
	if a.IsConst() {
		a, b = b, a
	}
	if b.IsConst() {
		if b.C.Sign() == 0 {
			return b
		}
		if b.C.Cmp(big1) == 0 {
			return a
		}
	}
	if !b.IsConst() && b.Op == "ite" {
		if n := iteConstLeaves(b, 8); n > 0 && n <= 64 {
			return f.liftIte(a, b, f.Mul, true)
		}
	}
	if !a.IsConst() && a.Op == "ite" && !b.IsConst() {
		if n := iteConstLeaves(a, 8); n > 0 && n <= 64 {
			return f.liftIte(b, a, f.Mul, true)
		}
	}
	if !b.IsConst() {
		// small-range factor: enumerate its values (keeps the arithmetic linear for the solver)
		if sm, other := smallRange(a), b; sm != nil {
			return f.caseSplit(a, sm, func(c *Term) *Term { return f.Mul(other, c) })
		}
		if sm, other := smallRange(b), a; sm != nil {
			return f.caseSplit(b, sm, func(c *Term) *Term { return f.Mul(other, c) })
		}
		if !a.IsConst() && f.splitDepth < 3 {
			for _, t := range []*Term{a, b} {
				if v := f.soleSmallVar(t); v != nil {
					f.splitDepth++
					r := f.splitOn(v, a, b, f.Mul)
					f.splitDepth--
					return r
				}
			}
		}
	}
	var lo, hi *big.Int
	if a.Lo != nil && a.Hi != nil && b.Lo != nil && b.Hi != nil {
		lo, hi = minmax4(new(big.Int).Mul(a.Lo, b.Lo), new(big.Int).Mul(a.Lo, b.Hi), new(big.Int).Mul(a.Hi, b.Lo), new(big.Int).Mul(a.Hi, b.Hi))
	} else if a.Lo != nil && a.Lo.Sign() >= 0 && b.Lo != nil && b.Lo.Sign() >= 0 {
		lo = new(big.Int).Mul(a.Lo, b.Lo)
	}
	return f.mk(&Term{Op: "*", Sort: SInt, Args: []*Term{a, b}, Lo: lo, Hi: hi})
}

const smallRangeMax = 40

// smallRange returns [lo,hi] if t is non-constant with at most smallRangeMax possible values.
func smallRange(t *Term) []int64 {
	if t.IsConst() || t.Lo == nil || t.Hi == nil {
		return nil
	}
	d := new(big.Int).Sub(t.Hi, t.Lo)
	if !d.IsInt64() || d.Int64() >= smallRangeMax || !t.Lo.IsInt64() || !t.Hi.IsInt64() {
		return nil
	}
	return []int64{t.Lo.Int64(), t.Hi.Int64()}
}

// soleSmallVar: if t depends on exactly one variable and that variable has a small range, return it.
func (f *TF) soleSmallVar(t *Term) *Term {
	if t.IsConst() {
		return nil
	}
	vs := f.varsOf(t)
	if len(vs) != 1 {
		return nil
	}
	if vs[0].Sort == SInt && smallRange(vs[0]) != nil {
		return vs[0]
	}
	return nil
}

// iteConstLeaves: t is a (nested) ite whose leaves are all constants; returns the number of leaves (0 if not).
func iteConstLeaves(t *Term, budget int) int {
	if t.IsConst() {
		return 1
	}
	if t.Op != "ite" || budget <= 0 {
		return 0
	}
	l := iteConstLeaves(t.Args[1], budget-1)
	if l == 0 {
		return 0
	}
	r := iteConstLeaves(t.Args[2], budget-1)
	if r == 0 {
		return 0
	}
	return l + r
}

// liftIte pushes a binary operation with a non-constant left operand into an ite-of-constants right operand.
func (f *TF) liftIte(a, b *Term, op func(x, y *Term) *Term, zeroOK bool) *Term {
	if b.IsConst() {
		if !zeroOK && b.C.Sign() == 0 {
			return f.I64(0)
		}
		return op(a, b)
	}
	return f.Ite(b.Args[0], f.liftIte(a, b.Args[1], op, zeroOK), f.liftIte(a, b.Args[2], op, zeroOK))
}

func (f *TF) varsOf(t *Term) []*Term {
	if f.varCache == nil {
		f.varCache = map[int][]*Term{}
	}
	if v, ok := f.varCache[t.ID]; ok {
		return v
	}
	var out []*Term
	switch t.Op {
	case "const":
	case "var":
		out = []*Term{t}
	default:
		seen := map[int]bool{}
		for _, a := range t.Args {
			for _, v := range f.varsOf(a) {
				if !seen[v.ID] {
					seen[v.ID] = true
					out = append(out, v)
				}
			}
			if len(out) > 3 {
				break
			}
		}
	}
	f.varCache[t.ID] = out
	return out
}

// subst rebuilds t with variable v replaced by constant c (through the simplifying constructors).
func (f *TF) subst(t, v, c *Term, memo map[int]*Term) *Term {
	if t == v {
		return c
	}
	if t.Op == "const" || t.Op == "var" {
		return t
	}
	if r, ok := memo[t.ID]; ok {
		return r
	}
	dep := false
	for _, x := range f.varsOf(t) {
		if x == v {
			dep = true
		}
	}
	if !dep && len(f.varsOf(t)) <= 3 {
		memo[t.ID] = t
		return t
	}
	as := make([]*Term, len(t.Args))
	for i, a := range t.Args {
		as[i] = f.subst(a, v, c, memo)
	}
	var r *Term
	switch t.Op {
	case "+":
		r = f.Add(as[0], as[1])
	case "-":
		r = f.Sub(as[0], as[1])
	case "*":
		r = f.Mul(as[0], as[1])
	case "div":
		if as[1].IsConst() && as[1].C.Sign() == 0 {
			r = f.I64(0)
		} else {
			r = f.Div(as[0], as[1])
		}
	case "mod":
		if as[1].IsConst() && as[1].C.Sign() == 0 {
			r = f.I64(0)
		} else {
			r = f.Mod(as[0], as[1])
		}
	case "ite":
		r = f.Ite(as[0], as[1], as[2])
	case "=":
		r = f.Eq(as[0], as[1])
	case "<":
		r = f.Lt(as[0], as[1])
	case "<=":
		r = f.Le(as[0], as[1])
	case "and":
		r = f.And(as...)
	case "or":
		r = f.Or(as...)
	case "not":
		r = f.Not(as[0])
	case "byteof":
		r = f.ByteOf(as[0], t.N2, t.N)
	case "bitlen":
		r = f.BitLen(as[0])
	case "toreal":
		r = f.ToReal(as[0])
	default:
		r = f.mk(&Term{Op: t.Op, Sort: t.Sort, Name: t.Name, N: t.N, N2: t.N2, Args: as})
	}
	memo[t.ID] = r
	return r
}

// splitOn enumerates the values of the small-range variable v in the binary operation op(a,b).
func (f *TF) splitOn(v *Term, a, b *Term, op func(x, y *Term) *Term) *Term {
	r := smallRange(v)
	var res *Term
	for c := r[1]; c >= r[0]; c-- {
		ct := f.I64(c)
		memo := map[int]*Term{}
		x, y := f.subst(a, v, ct, memo), f.subst(b, v, ct, memo)
		var val *Term
		if y.IsConst() && y.Sort == SInt && y.C.Sign() == 0 && op != nil && f.divLike {
			val = f.I64(0)
		} else {
			val = op(x, y)
		}
		if res == nil {
			res = val
		} else {
			res = f.Ite(f.Eq(v, ct), val, res)
		}
	}
	return res
}

func (f *TF) caseSplit(v *Term, r []int64, g func(c *Term) *Term) *Term {
	res := g(f.I64(r[1]))
	for c := r[1] - 1; c >= r[0]; c-- {
		res = f.Ite(f.Eq(v, f.I64(c)), g(f.I64(c)), res)
	}
	return res
}

func floorDiv(a, b *big.Int) *big.Int {
	// SMT-LIB div for b>0 is floor; for b<0 it is such that a = b*q + r, 0<=r<|b|
	q, r := new(big.Int).QuoRem(a, b, new(big.Int))
	if r.Sign() < 0 {
		if b.Sign() > 0 {
			q.Sub(q, big1)
		} else {
			q.Add(q, big1)
		}
	}
	return q
}
func euMod(a, b *big.Int) *big.Int {
	q := floorDiv(a, b)
	return new(big.Int).Sub(a, new(big.Int).Mul(b, q))
}

// Div is SMT-LIB (Euclidean) div; b must be known non-zero by the caller.
func (f *TF) Div(a, b *Term) *Term {
	if a.IsConst() && b.IsConst() && b.C.Sign() != 0 {
		return f.Int(floorDiv(a.C, b.C))
	}
	if b.IsConst() && b.C.Cmp(big1) == 0 {
		return a
	}
	if !b.IsConst() && b.Op == "ite" {
		if n := iteConstLeaves(b, 8); n > 0 && n <= 64 {
			return f.liftIte(a, b, f.Div, false)
		}
	}
	if !b.IsConst() {
		if sm := smallRange(b); sm != nil {
			return f.caseSplit(b, sm, func(c *Term) *Term {
				if c.C.Sign() == 0 {
					return f.I64(0) // unreachable: callers exclude a zero divisor
				}
				return f.Div(a, c)
			})
		}
		if v := f.soleSmallVar(b); v != nil && f.splitDepth < 3 {
			f.splitDepth++
			f.divLike = true
			r := f.splitOn(v, a, b, f.Div)
			f.divLike = false
			f.splitDepth--
			return r
		}
	}
	var lo, hi *big.Int
	if b.IsConst() && b.C.Sign() > 0 {
		if a.Lo != nil {
			lo = floorDiv(a.Lo, b.C)
		}
		if a.Hi != nil {
			hi = floorDiv(a.Hi, b.C)
		}
		if a.Hi != nil && a.Lo != nil && a.Lo.Sign() >= 0 && a.Hi.Cmp(b.C) < 0 {
			return f.I64(0)
		}
	} else if a.Lo != nil && a.Lo.Sign() >= 0 && b.Lo != nil && b.Lo.Sign() > 0 {
		lo = big0
		hi = a.Hi
	}
	return f.mk(&Term{Op: "div", Sort: SInt, Args: []*Term{a, b}, Lo: lo, Hi: hi})
}

func (f *TF) Mod(a, b *Term) *Term {
	if a.IsConst() && b.IsConst() && b.C.Sign() != 0 {
		return f.Int(euMod(a.C, b.C))
	}
	if !b.IsConst() {
		if sm := smallRange(b); sm != nil {
			return f.caseSplit(b, sm, func(c *Term) *Term {
				if c.C.Sign() == 0 {
					return f.I64(0)
				}
				return f.Mod(a, c)
			})
		}
	}
	var lo, hi *big.Int
	if b.IsConst() && b.C.Sign() > 0 {
		if a.Lo != nil && a.Hi != nil && a.Lo.Sign() >= 0 && a.Hi.Cmp(b.C) < 0 {
			return a
		}
		lo = big0
		hi = new(big.Int).Sub(b.C, big1)
	} else if b.Lo != nil && b.Lo.Sign() > 0 {
		lo = big0
		if b.Hi != nil {
			hi = new(big.Int).Sub(b.Hi, big1)
		}
	}
	return f.mk(&Term{Op: "mod", Sort: SInt, Args: []*Term{a, b}, Lo: lo, Hi: hi})
}

func nonneg(t *Term) bool { return t.Lo != nil && t.Lo.Sign() >= 0 }
func pos(t *Term) bool    { return t.Lo != nil && t.Lo.Sign() > 0 }

// TDiv: Go / big.Int.Quo truncated division. Divisor assumed non-zero.
func (f *TF) TDiv(a, b *Term) *Term {
	if a.IsConst() && b.IsConst() && b.C.Sign() != 0 {
		return f.Int(new(big.Int).Quo(a.C, b.C))
	}
	if nonneg(a) && pos(b) {
		return f.Div(a, b)
	}
	absa := f.Ite(f.Le(f.I64(0), a), a, f.Neg(a))
	absb := f.Ite(f.Lt(f.I64(0), b), b, f.Neg(b))
	absa = f.withBounds(absa, big0, nil)
	q := f.Div(absa, f.withBounds(absb, big0, nil))
	sameSign := f.Eq(f.Le(f.I64(0), a), f.Lt(f.I64(0), b))
	return f.Ite(sameSign, q, f.Neg(q))
}

// TRem: Go % / big.Int.Rem (sign of dividend).
func (f *TF) TRem(a, b *Term) *Term {
	if a.IsConst() && b.IsConst() && b.C.Sign() != 0 {
		return f.Int(new(big.Int).Rem(a.C, b.C))
	}
	if nonneg(a) && pos(b) {
		return f.Mod(a, b)
	}
	return f.Sub(a, f.Mul(b, f.TDiv(a, b)))
}

// withBounds returns the same term (bounds are advisory; only tighten when the caller knows).
func (f *TF) withBounds(t *Term, lo, hi *big.Int) *Term {
	if t.IsConst() {
		return t
	}
	if lo != nil && (t.Lo == nil || t.Lo.Cmp(lo) < 0) {
		t.Lo = lo
	}
	if hi != nil && (t.Hi == nil || t.Hi.Cmp(hi) > 0) {
		t.Hi = hi
	}
	return t
}

func (f *TF) realOp(op string, a, b *Term) *Term {
	a, b = f.ToReal(a), f.ToReal(b)
	if a.IsConst() && b.IsConst() {
		r := new(big.Rat)
		switch op {
		case "+":
			r.Add(a.R, b.R)
		case "-":
			r.Sub(a.R, b.R)
		case "*":
			r.Mul(a.R, b.R)
		case "/":
			if b.R.Sign() != 0 {
				r.Quo(a.R, b.R)
				return f.Real(r)
			}
			return f.mk(&Term{Op: op, Sort: SReal, Args: []*Term{a, b}})
		}
		return f.Real(r)
	}
	return f.mk(&Term{Op: op, Sort: SReal, Args: []*Term{a, b}})
}
func (f *TF) RDiv(a, b *Term) *Term { return f.realOp("/", a, b) }

func (f *TF) ToReal(a *Term) *Term {
	if a.Sort == SReal {
		return a
	}
	if a.IsConst() {
		return f.Real(new(big.Rat).SetInt(a.C))
	}
	return f.mk(&Term{Op: "toreal", Sort: SReal, Args: []*Term{a}})
}

func (f *TF) Ite(c, a, b *Term) *Term {
	if c.IsConst() {
		if c.B {
			return a
		}
		return b
	}
	if a == b {
		return a
	}
	if a.Sort == SBool {
		return f.Or(f.And(c, a), f.And(f.Not(c), b))
	}
	var lo, hi *big.Int
	if a.Lo != nil && b.Lo != nil {
		lo = a.Lo
		if b.Lo.Cmp(lo) < 0 {
			lo = b.Lo
		}
	}
	if a.Hi != nil && b.Hi != nil {
		hi = a.Hi
		if b.Hi.Cmp(hi) > 0 {
			hi = b.Hi
		}
	}
	return f.mk(&Term{Op: "ite", Sort: a.Sort, Args: []*Term{c, a, b}, Lo: lo, Hi: hi})
}

func (f *TF) Not(a *Term) *Term {
	if a.IsConst() {
		return f.Bool(!a.B)
	}
	if a.Op == "not" {
		return a.Args[0]
	}
	return f.mk(&Term{Op: "not", Sort: SBool, Args: []*Term{a}})
}

func (f *TF) nary(op string, unit bool, args []*Term) *Term {
	var out []*Term
	seen := map[int]bool{}
	var add func(t *Term) bool
	add = func(t *Term) bool {
		if t.IsConst() {
			if t.B == unit {
				return true
			}
			return false // absorbing
		}
		if t.Op == op {
			for _, x := range t.Args {
				if !add(x) {
					return false
				}
			}
			return true
		}
		if !seen[t.ID] {
			seen[t.ID] = true
			out = append(out, t)
		}
		return true
	}
	for _, a := range args {
		if !add(a) {
			return f.Bool(!unit)
		}
	}
	for _, t := range out {
		if t.Op == "not" && seen[t.Args[0].ID] {
			return f.Bool(!unit)
		}
	}
	if len(out) == 0 {
		return f.Bool(unit)
	}
	if len(out) == 1 {
		return out[0]
	}
	return f.mk(&Term{Op: op, Sort: SBool, Args: out})
}

func (f *TF) And(args ...*Term) *Term { return f.nary("and", true, args) }
func (f *TF) Or(args ...*Term) *Term  { return f.nary("or", false, args) }
func (f *TF) Implies(a, b *Term) *Term {
	return f.Or(f.Not(a), b)
}

func (f *TF) Eq(a, b *Term) *Term {
	if a == b {
		return f.True
	}
	if a.Sort == SBool {
		if a.IsConst() {
			if a.B {
				return b
			}
			return f.Not(b)
		}
		if b.IsConst() {
			if b.B {
				return a
			}
			return f.Not(a)
		}
		if a.ID > b.ID {
			a, b = b, a
		}
		return f.mk(&Term{Op: "=", Sort: SBool, Args: []*Term{a, b}})
	}
	if a.Sort == SReal || b.Sort == SReal {
		a, b = f.ToReal(a), f.ToReal(b)
		if a.IsConst() && b.IsConst() {
			return f.Bool(a.R.Cmp(b.R) == 0)
		}
		return f.mk(&Term{Op: "=", Sort: SBool, Args: []*Term{a, b}})
	}
	if a.IsConst() && b.IsConst() {
		return f.Bool(a.C.Cmp(b.C) == 0)
	}
	if (a.Hi != nil && b.Lo != nil && a.Hi.Cmp(b.Lo) < 0) || (b.Hi != nil && a.Lo != nil && b.Hi.Cmp(a.Lo) < 0) {
		return f.False
	}
	if r := f.bitlenCmp("=", a, b); r != nil {
		return r
	}
	// x + c1 = c2  ->  x = c2-c1
	if b.IsConst() && a.Op == "+" && a.Args[1].IsConst() {
		return f.Eq(a.Args[0], f.Int(new(big.Int).Sub(b.C, a.Args[1].C)))
	}
	if a.IsConst() && b.Op == "+" && b.Args[1].IsConst() {
		return f.Eq(b.Args[0], f.Int(new(big.Int).Sub(a.C, b.Args[1].C)))
	}
	if a.ID > b.ID {
		a, b = b, a
	}
	return f.mk(&Term{Op: "=", Sort: SBool, Args: []*Term{a, b}})
}

func (f *TF) Lt(a, b *Term) *Term {
	if a.Sort == SReal || b.Sort == SReal {
		a, b = f.ToReal(a), f.ToReal(b)
		if a.IsConst() && b.IsConst() {
			return f.Bool(a.R.Cmp(b.R) < 0)
		}
		return f.mk(&Term{Op: "<", Sort: SBool, Args: []*Term{a, b}})
	}
	if a == b {
		return f.False
	}
	if a.IsConst() && b.IsConst() {
		return f.Bool(a.C.Cmp(b.C) < 0)
	}
	if a.Hi != nil && b.Lo != nil && a.Hi.Cmp(b.Lo) < 0 {
		return f.True
	}
	if a.Lo != nil && b.Hi != nil && a.Lo.Cmp(b.Hi) >= 0 {
		return f.False
	}
	if r := f.bitlenCmp("<", a, b); r != nil {
		return r
	}
	return f.mk(&Term{Op: "<", Sort: SBool, Args: []*Term{a, b}})
}

func (f *TF) Le(a, b *Term) *Term {
	if a.Sort == SReal || b.Sort == SReal {
		a, b = f.ToReal(a), f.ToReal(b)
		if a.IsConst() && b.IsConst() {
			return f.Bool(a.R.Cmp(b.R) <= 0)
		}
		return f.mk(&Term{Op: "<=", Sort: SBool, Args: []*Term{a, b}})
	}
	if a == b {
		return f.True
	}
	if a.IsConst() && b.IsConst() {
		return f.Bool(a.C.Cmp(b.C) <= 0)
	}
	if a.Hi != nil && b.Lo != nil && a.Hi.Cmp(b.Lo) <= 0 {
		return f.True
	}
	if a.Lo != nil && b.Hi != nil && a.Lo.Cmp(b.Hi) > 0 {
		return f.False
	}
	if r := f.bitlenCmp("<=", a, b); r != nil {
		return r
	}
	return f.mk(&Term{Op: "<=", Sort: SBool, Args: []*Term{a, b}})
}
func (f *TF) Gt(a, b *Term) *Term { return f.Lt(b, a) }
func (f *TF) Ge(a, b *Term) *Term { return f.Le(b, a) }
func (f *TF) Ne(a, b *Term) *Term { return f.Not(f.Eq(a, b)) }

// BitLen(x) = number of bits of |x|. Only comparisons with constants are expressible.
func (f *TF) BitLen(x *Term) *Term {
	if x.IsConst() {
		return f.I64(int64(x.C.BitLen()))
	}
	return f.mk(&Term{Op: "bitlen", Sort: SInt, Args: []*Term{x}, Lo: big0})
}

func (f *TF) Abs(x *Term) *Term {
	if nonneg(x) {
		return x
	}
	if x.IsConst() {
		return f.Int(new(big.Int).Abs(x.C))
	}
	return f.withBounds(f.Ite(f.Le(f.I64(0), x), x, f.Neg(x)), big0, nil)
}

func (f *TF) bitlenCmp(op string, a, b *Term) *Term {
	// bitlen(x) OP c   or   c OP bitlen(x)
	if a.Op == "bitlen" && b.IsConst() {
		x := f.Abs(a.Args[0])
		c := int(b.C.Int64())
		if b.C.Sign() < 0 {
			c = -1
		}
		switch op {
		case "<": // bitlen < c  <=> |x| < 2^(c-1)... bitlen(x) <= c-1 <=> |x| < 2^(c-1)
			if c <= 0 {
				return f.False
			}
			return f.Lt(x, f.Int(pow2(c-1)))
		case "<=": // bitlen <= c <=> |x| < 2^c
			if c < 0 {
				return f.False
			}
			return f.Lt(x, f.Int(pow2(c)))
		case "=":
			if c < 0 {
				return f.False
			}
			if c == 0 {
				return f.Eq(x, f.I64(0))
			}
			return f.And(f.Le(f.Int(pow2(c-1)), x), f.Lt(x, f.Int(pow2(c))))
		}
	}
	if b.Op == "bitlen" && a.IsConst() {
		x := f.Abs(b.Args[0])
		c := int(a.C.Int64())
		if a.C.Sign() < 0 {
			c = -1
		}
		switch op {
		case "<": // c < bitlen <=> |x| >= 2^c
			if c < 0 {
				return f.True
			}
			return f.Le(f.Int(pow2(c)), x)
		case "<=": // c <= bitlen <=> |x| >= 2^(c-1)
			if c <= 0 {
				return f.True
			}
			return f.Le(f.Int(pow2(c-1)), x)
		case "=":
			return f.bitlenCmp("=", b, a)
		}
	}
	return nil
}

// ByteOf: byte i (0 = most significant) of the n-byte big-endian encoding of t (t mod 256^n).
func (f *TF) ByteOf(t *Term, i, n int) *Term {
	if t.IsConst() {
		v := euMod(t.C, pow256(n))
		v.Rsh(v, uint(8*(n-1-i)))
		v.And(v, big.NewInt(255))
		return f.Int(v)
	}
	if t.Hi != nil && t.Lo != nil && t.Lo.Sign() >= 0 && t.Hi.Cmp(pow256(n-1-i)) < 0 {
		return f.I64(0)
	}
	return f.mk(&Term{Op: "byteof", Sort: SInt, N: n, N2: i, Args: []*Term{t}, Lo: big0, Hi: big.NewInt(255)})
}

// FromBytes: big-endian unsigned value of the bytes.
func (f *TF) FromBytes(bs []*Term) *Term {
	n := len(bs)
	if n == 0 {
		return f.I64(0)
	}
	// skip leading concrete zeros, and detect byteof runs
	if g := f.byteRun(bs); g != nil {
		return g
	}
	acc := f.I64(0)
	for i, b := range bs {
		acc = f.Add(acc, f.Mul(b, f.Int(pow256(n-1-i))))
	}
	return acc
}

// byteRun: if bs == [0,...,0, byteof(t,k..n-1,n)] covering the low-order bytes of t fully and t fits, return t.
func (f *TF) byteRun(bs []*Term) *Term {
	i := 0
	for i < len(bs) && bs[i].IsConst() && bs[i].C.Sign() == 0 {
		i++
	}
	if i == len(bs) {
		return f.I64(0)
	}
	first := bs[i]
	if first.Op != "byteof" {
		return nil
	}
	t, n := first.Args[0], first.N
	if len(bs)-i != n-first.N2 {
		return nil
	}
	for j := i; j < len(bs); j++ {
		b := bs[j]
		if b.Op != "byteof" || b.Args[0] != t || b.N != n || b.N2 != first.N2+(j-i) {
			return nil
		}
	}
	// value = t mod 256^(n-first.N2)
	return f.Mod(f.nonnegOrMod(t, n), f.Int(pow256(n-first.N2)))
}

func (f *TF) nonnegOrMod(t *Term, n int) *Term {
	if nonneg(t) {
		return t
	}
	return f.Mod(t, f.Int(pow256(n)))
}

func (f *TF) UF(name string, s Sort, args ...*Term) *Term {
	t := &Term{Op: "uf", Sort: s, Name: name, Args: args}
	return f.mk(t)
}

// ---- SMT-LIB printing with per-session definitions ----

type printer struct {
	defined map[int]bool // term IDs with a define-fun in the current solver session
	decl    map[string]bool
	ufdecl  map[string]bool
	out     *strings.Builder
}

func smtInt(c *big.Int) string {
	if c.Sign() < 0 {
		return "(- " + new(big.Int).Neg(c).String() + ")"
	}
	return c.String()
}

func smtName(n string) string { return "|" + strings.ReplaceAll(n, "|", "_") + "|" }

func sortName(s Sort) string {
	switch s {
	case SInt:
		return "Int"
	case SBool:
		return "Bool"
	}
	return "Real"
}

// ref returns the SMT text referring to t, emitting needed declarations/definitions into p.out first.
func (p *printer) ref(t *Term) string {
	switch t.Op {
	case "const":
		switch t.Sort {
		case SInt:
			return smtInt(t.C)
		case SBool:
			if t.B {
				return "true"
			}
			return "false"
		default:
			num, den := t.R.Num(), t.R.Denom()
			s := fmt.Sprintf("(/ %s.0 %s.0)", new(big.Int).Abs(num).String(), den.String())
			if num.Sign() < 0 {
				s = "(- " + s + ")"
			}
			return s
		}
	case "var":
		if !p.decl[t.Name] {
			p.decl[t.Name] = true
			fmt.Fprintf(p.out, "(declare-const %s %s)\n", smtName(t.Name), sortName(t.Sort))
			if t.Sort == SInt {
				if t.Lo != nil {
					fmt.Fprintf(p.out, "(assert (<= %s %s))\n", smtInt(t.Lo), smtName(t.Name))
				}
				if t.Hi != nil {
					fmt.Fprintf(p.out, "(assert (<= %s %s))\n", smtName(t.Name), smtInt(t.Hi))
				}
			}
		}
		return smtName(t.Name)
	}
	if t.Op == "byteof" && linearBytes {
		return p.byteRef(t)
	}
	name := fmt.Sprintf("t%d", t.ID)
	if p.defined[t.ID] {
		return name
	}
	args := make([]string, len(t.Args))
	for i, a := range t.Args {
		args[i] = p.ref(a)
	}
	var body string
	switch t.Op {
	case "neg":
		body = "(- " + args[0] + ")"
	case "byteof":
		k := pow256(t.N - 1 - t.N2)
		body = fmt.Sprintf("(mod (div %s %s) 256)", args[0], k.String())
	case "toreal":
		body = "(to_real " + args[0] + ")"
	case "bitlen":
		panic(engineErr("bitlen of a symbolic value used outside a comparison with a constant"))
	case "uf":
		if len(args) == 0 {
			panic("uf without args")
		}
		if !p.ufdecl[t.Name] {
			p.ufdecl[t.Name] = true
			var ss []string
			for _, a := range t.Args {
				ss = append(ss, sortName(a.Sort))
			}
			fmt.Fprintf(p.out, "(declare-fun %s (%s) %s)\n", smtName(t.Name), strings.Join(ss, " "), sortName(t.Sort))
		}
		body = "(" + smtName(t.Name) + " " + strings.Join(args, " ") + ")"
	default:
		body = "(" + t.Op + " " + strings.Join(args, " ") + ")"
	}
	fmt.Fprintf(p.out, "(define-fun %s () %s %s)\n", name, sortName(t.Sort), body)
	p.defined[t.ID] = true
	return name
}

var linearBytes = false

// byteRef: byte i of the n-byte big-endian encoding of x is a fresh variable; the n variables of one
// decomposition are tied to x by a single linear equation (no div/mod reaches the solver).
func (p *printer) byteRef(t *Term) string {
	x, n := t.Args[0], t.N
	base := fmt.Sprintf("bo!%d!%d", x.ID, n)
	if !p.decl[base] {
		xr := p.ref(x)
		p.decl[base] = true
		var sum []string
		for i := 0; i < n; i++ {
			b := smtName(fmt.Sprintf("%s!%d", base, i))
			fmt.Fprintf(p.out, "(declare-const %s Int)\n(assert (and (<= 0 %s) (<= %s 255)))\n", b, b, b)
			k := pow256(n - 1 - i)
			if k.Cmp(big1) == 0 {
				sum = append(sum, b)
			} else {
				sum = append(sum, fmt.Sprintf("(* %s %s)", b, k.String()))
			}
		}
		inRange := x.Lo != nil && x.Hi != nil && x.Lo.Sign() >= 0 && x.Hi.Cmp(pow256(n)) < 0
		lhs := xr
		if !inRange {
			lhs = fmt.Sprintf("(mod %s %s)", xr, pow256(n).String())
		}
		rhs := sum[0]
		if len(sum) > 1 {
			rhs = "(+ " + strings.Join(sum, " ") + ")"
		}
		fmt.Fprintf(p.out, "(assert (= %s %s))\n", lhs, rhs)
	}
	return smtName(fmt.Sprintf("%s!%d", base, t.N2))
}

// collectVars lists the variables occurring in t.
func collectVars(t *Term, seen map[int]bool, out map[string]*Term) {
	if seen[t.ID] {
		return
	}
	seen[t.ID] = true
	if t.Op == "var" {
		out[t.Name] = t
	}
	for _, a := range t.Args {
		collectVars(a, seen, out)
	}
}

func sortedNames(m map[string]*Term) []string {
	var ns []string
	for n := range m {
		ns = append(ns, n)
	}
	sort.Strings(ns)
	return ns
}

// String renders a term for humans (truncated).
func (t *Term) String() string {
	var sb strings.Builder
	t.str(&sb, 0)
	return sb.String()
}

func (t *Term) str(sb *strings.Builder, depth int) {
	if sb.Len() > 400 {
		sb.WriteString("…")
		return
	}
	switch t.Op {
	case "const":
		switch t.Sort {
		case SInt:
			sb.WriteString(t.C.String())
		case SBool:
			fmt.Fprintf(sb, "%v", t.B)
		default:
			sb.WriteString(t.R.String())
		}
	case "var":
		sb.WriteString(t.Name)
	case "byteof":
		fmt.Fprintf(sb, "byte%d/%d(", t.N2, t.N)
		t.Args[0].str(sb, depth+1)
		sb.WriteString(")")
	default:
		sb.WriteString("(")
		if t.Op == "uf" {
			sb.WriteString(t.Name)
		} else {
			sb.WriteString(t.Op)
		}
		for _, a := range t.Args {
			sb.WriteString(" ")
			a.str(sb, depth+1)
		}
		sb.WriteString(")")
	}
}

// evalTerm evaluates t under a model (var name -> value); used for replay/sample rendering.
func evalTerm(t *Term, m map[string]*big.Int) *big.Int {
	switch t.Op {
	case "const":
		if t.Sort == SBool {
			if t.B {
				return big1
			}
			return big0
		}
		if t.Sort == SInt {
			return t.C
		}
		return nil
	case "var":
		if v, ok := m[t.Name]; ok {
			return v
		}
		return nil
	}
	return nil
}
