#!/bin/bash
# usage: run_seeded.sh <patch> <property> [more properties...] : apply a seeded change to /repo, run the checks, undo it
patch=$1; shift
cd /repo && git status --short | grep -v '^??' | head -3
git -C /repo apply "$patch" || { echo "patch does not apply"; exit 3; }
for p in "$@"; do
  (cd /verif && timeout 1500 ./check $p --tier quick > /tmp/seeded_$p.log 2>&1; echo "$p exit=$?")
  grep "VIOLATION\|ERROR\|tier=" /tmp/seeded_$p.log | cut -c1-220 | head -8
  grep -A1 "^VIOLATION" /tmp/seeded_$p.log | grep obligation | cut -c1-200 | head -6
done
git -C /repo checkout -- . ; git -C /repo status --short | grep -v '^??' | head -3
